#!/usr/bin/env python3
"""Regenerates /verif/MANIFEST.json from the table below (kept next to the checks so that the
manifest, the dispatcher in sim/src/main.rs and DESIGN.md section 2 stay in step)."""
import json, os, subprocess

ROOT = os.path.dirname(os.path.dirname(os.path.abspath(__file__)))

TECH = "deterministic simulation with fault injection: seeded search over I/O schedules, faults and call histories against the real code, oracle = "

CHECKS = {
    "C01": ("exploration", "4/C01", TECH + "written history (flattened) = items read back, conditional on writer acceptance",
            "Seeded tag trees (boundary-length payloads, integer/float extremes, raw tags) presented to the real writer as Start/End, Full, unknown size, explicit widths through a short-writing sink, then read strictly (whole read; a second read under a drawn schedule attributes schedule-only failures to C04).",
            "Trusted: the generator's notion of a specification-conformant tree (ref_match), flattening of the written calls. Conditional on acceptance by the writer."),
    "C02": ("exploration", "4/C02", TECH + "read -> write -> read fixpoint on the real code",
            "Seeded byte streams (reference-encoder output with non-canonical encodings, writer output, byte-faulted/truncated variants); those the strict reader accepts from a root element are written back item by item and re-read.",
            "Self-referential: both reads are the real iterator; reach (fraction in scope, non-canonical features accepted) is reported in the evidence."),
    "C03": ("exploration", "4/C03", TECH + "independent decode of the input at every reported offset + tiling",
            "Seeded runs of the real iterator over scripted sources (chunking, capacity -> compaction/growth); every successful item is re-derived from the input bytes by an independent decoder. Sampling, not proof.",
            "Trusted: the reference decoder (refdec.rs walk), the reference encoder used to make valid inputs, the hand-written PRNG. Runs that panic are left to C05."),
    "C04": ("exploration", "4/C04", TECH + "differential against the slice run of the same bytes",
            "Seeded random delivery schedules plus systematic sweeps per input (chunk sizes 1-17, every split position, capacities 0..41, all 2^(len-1) compositions for inputs <= 12 bytes), EOF pauses at tag boundaries, Interrupted; compared event by event (items, offsets, every error field) with the whole-input run.",
            "Trusted: the slice run of the real iterator as reference (schedule-independent defects are other checks' business); pause placement uses the reference run's item offsets."),
    "C05": ("exploration", "4/C05", TECH + "no unwinding, call/step budgets, item bound, fusedness, error identity via tokens",
            "Seeded histories of next()/try_recover() over arbitrary and adversarial bytes, all configurations, both specification kinds, with hard errors / Interrupted / pauses injected into reads; each API call under catch_unwind, budgets and a 30 s watchdog for hangs.",
            "Trusted: catch_unwind sees every panic (library built with overflow checks and debug assertions); size limit kept <= 1 MiB."),
    "C06": ("exploration", "4/C06", TECH + "independent nesting / declared-path NFA / extent checker over the emitted items",
            "Seeded strict-mode parses of valid, mid-document, byte-faulted and structurally faulted documents (element moved/duplicated, id substituted, size changed, size -> unknown marker) under random schedules; emitted items replayed against the reference checker.",
            "Trusted: ref_match (path NFA) and the checker's own tiling; unknown-size closing moments are C07's subject."),
    "C07": ("exploration", "4/C07", TECH + "differential between unknown-size encodings of one tree, the all-known-size encoding and the tree itself; reference decoder as third opinion",
            "Seeded trees (depth up to 6) with random subsets - and for up to 7 masters ALL 2^m subsets - of masters encoded with unknown size, by the reference encoder and by the real writer, read strictly under a drawn schedule. Closing causes (sibling, ancestor instance, root, enclosing unknown master, parent exhaustion, EOF) are counted from the layout.",
            "Trusted: flattening of the generated tree; unknown size only on masters with placeholder-free paths; the property's own ambiguous placements are excluded."),
    "C08": ("exploration", "4/C08", TECH + "flatten(buffered run) vs unbuffered run of the same bytes",
            "Seeded inputs (valid / truncated / byte-faulted, known and unknown sizes, recursive global masters) with drawn buffered-id sets or ALL non-empty subsets of the masters present (<= 6), same schedule for both runs.",
            "Trusted: the unbuffered run of the real iterator as reference; default EOF closing."),
    "C09": ("exploration", "4/C09", TECH + "byte equality of paired writer runs; size-field width decode by the reference walker",
            "Seeded trees written 3-6 times in different presentations (Full incl. nested, deprecated unknown-size call, write_raw) through different short-write schedules; explicit widths and the reserved unknown-size value are located in the output by the reference walker; the option-free output must differ in size fields only.",
            "Trusted: refdec.rs walk to locate elements; sink errors are not injected (the property speaks of partial writes)."),
    "C10": ("exploration", "4/C10", TECH + "reference writer-state model + reference decoder of what the sink holds after every call and partial write",
            "Seeded valid call histories (known/unknown-size masters interleaved, Full, raw, widths; optionally cut short, ended by flush()) through a short-writing sink observed after every call: prefix stability, nothing of an open known-size master delivered, everything visible and decodable when none is open, completeness after flush()/into_inner().",
            "Trusted: ref_decode (closing rules as stated by C07) and the open-master bookkeeping derived from the call history."),
    "C11": ("exploration", "4/C11", "seeded generation of specifications and of call histories / streams that build a chain of open masters, refinement check operation by operation against a reference path-pattern NFA (no schedule or fault dimension is relevant to this property; the simulator contributes the history generator and the oracle)",
            "Seeded specifications (placeholders in trailing and intermediate position, global masters, depth <= 7) x reachable chains (some unknown-size) x EVERY element as probe, on the writer (Ok iff match, UnexpectedTag with id otherwise, state unchanged) and on the reader (stream from the reference encoder; judged against the chain after the closing rule).",
            "Trusted: ref_match. The I/O seams are present but irrelevant here, which DESIGN.md states plainly."),
    "C12": ("fault_enumeration", "4/C12", TECH + "expected prefix and EOF-error fields computed from the reference encoder's layout",
            "Per generated document EVERY cut position 0..=len is executed (slice run + 2 drawn capacity/schedule pairs per cut); documents are drawn by seeded search.",
            "Trusted: reference encoder and its layout. Documented tolerance: Ends of unknown-size masters implied only by the incomplete tag."),
    "C13": ("exploration", "4/C13", TECH + "error kind/position from injected ground-truth faults; prefix monotonicity across all 8 tolerance subsets",
            "Seeded single-fault documents (id outside the specification, misplaced element under known-size masters, child overrunning a known-size ancestor, size above the limit under unknown-size masters) and arbitrary faulted inputs, each parsed under all 8 tolerance subsets with a drawn schedule.",
            "Trusted: the layout-based fault injection (exactly one fault of a known class). The default 4 GB limit is C17's subject."),
    "C14": ("fault_enumeration", "4/C14", TECH + "undamaged parse shifted by the junk length; monotone offsets; failure kinds",
            "Per generated known-size document EVERY tag boundary receives 3 drawn junk runs (1-12 bytes that cannot begin an id of the specification); driver next()/try_recover(); the main clause is judged where the layout says its precondition holds, the general clause always.",
            "Trusted: reference encoder layout for boundaries and for the fits-after-shift precondition."),
    "C17": ("exploration", "4/C17", TECH + "peak heap growth and bytes pulled vs bound (counting global allocator armed around library calls, lazy virtual source); error kind",
            "Seeded hostile headers (declared sizes 0..2^56-2 around the limit and at powers of two, every width, at root / inside known-size (accurate or hostile) / unknown-size masters, all limits incl. the default 4e9, any tolerance subset, payload present/short/absent with the rest existing only virtually). Runs execute in 16 child processes because a refused allocation (>1 GiB) aborts; the parent maps an abort to the run announced last.",
            "Trusted: the allocator accounting (per thread, only while a library call runs); the bound's slack (factor 8 + 4 KiB) is far below the hostile sizes that matter. In-limit sizes under the default limit are kept below 8 MiB."),
    "C19": ("fault_enumeration", "4/C19", TECH + "differential between a valid call history and the same history with failing calls inserted",
            "Per generated valid history a failing call of each kind is inserted at EVERY position (one at a time plus a few pairs); per-call results, delivered bytes after each original call and the into_inner() result are compared with the undisturbed history.",
            "Trusted: the construction of calls that must fail (ref_match for hierarchy, 2^(7w) bounds for widths); calls the writer accepts anyway are left to C11."),
    "C20": ("exploration", "4/C20", TECH + "differential against the blocking iterator over the same bytes; single termination; lost wake-ups and poll budgets",
            "Seeded async delivery schedules (fill-the-buffer reads, 1-byte dribble, single split, large head then dribble, random compositions; Pending with immediate or deferred wake) over valid / truncated / faulted inputs incl. inputs larger than the 64 KiB transfer buffer, with buffered-id sets, driving next() and the into_stream() adapter on a hand-written single-threaded executor.",
            "Trusted: the blocking iterator's slice run as reference; the 40-line executor (no threads, no timers). Offsets are not observable through the stream adapter."),
}

NOT_APPLICABLE = {
    "C15": "pure functions of their arguments (tools vint codec): no reader, writer, allocator, schedule, fault or call history enters the statement, so a simulator adds nothing over plain enumeration; not a simulation target (DESIGN 4/C15).",
    "C16": "pure functions (arr_to_u64/i64/f64 and the writer's width selection): no seam, schedule or fault; exercised only incidentally by C01/C03/C05 (DESIGN 4/C15-C16).",
    "C18": "compile-time proc-macro: a statement about generated programs and compile errors; nothing executes under a seam, schedule or fault (DESIGN 4/C18).",
}

PENDING = {}

def main():
    props = [json.loads(l)["id"] for l in open(os.path.join(ROOT, "properties.jsonl"))]
    commits = []
    checks = []
    for pid in props:
        if pid not in CHECKS:
            continue
        level, ref, tech, text, note = CHECKS[pid]
        checks.append({
            "property_id": pid,
            "quick_cmd": f"./check {pid} quick",
            "thorough_cmd": f"./check {pid} thorough",
            "evidence_file": f"/verif/evidence/{pid}.json",
            "replay_cmd_template": "./check replay {path}",
            "engine": "ebml-sim",
            "level_claimed": {"category": level, "text": text, "design_ref": "DESIGN.md section " + ref},
            "level_note": note,
            "technique": tech,
        })
    na = []
    for pid in props:
        if pid in CHECKS:
            continue
        if pid in NOT_APPLICABLE:
            na.append({"property_id": pid, "reason": NOT_APPLICABLE[pid]})
        else:
            na.append({"property_id": pid, "reason": PENDING.get(pid, "not claimed yet: the check for this property has not been built in this session (design in DESIGN.md section 4); no assurance is claimed.")})
    m = {
        "version": 1,
        "setup_cmd": "cd /verif/sim && CARGO_NET_OFFLINE=true cargo build --release --offline",
        "hooks": {
            "guard": "ebml_iterable_verif",
            "enable": "no hook exists: every seam the simulator needs (Read/Write/AsyncRead type parameters, with_capacity, the specification traits) is public API, so the checks build /repo unmodified as a path dependency with features futures + derive-spec",
            "baseline_off_cmd": "cd /repo && cargo test --workspace --no-fail-fast --offline",
            "source_commits": commits,
            "add_only": True,
        },
        "engines": [{
            "name": "ebml-sim",
            "path": "/verif/sim",
            "serves_properties": [c["property_id"] for c in checks],
            "kind_free_text": "single-process deterministic simulator: scripted Read/Write/AsyncRead seams, runtime specification seam, seeded xoshiro256** search, reference models, replay files with minimisation",
        }],
        "checks": checks,
        "not_applicable": na,
        "notes": "Repairs of genuine defects are unguarded 'fix:' commits in /repo, listed in /verif/known_findings.json. VERIF_SEED changes the sample; VERIF_THREADS the worker count (default 16).",
    }
    json.dump(m, open(os.path.join(ROOT, "MANIFEST.json"), "w"), indent=1)
    print("MANIFEST.json:", len(checks), "checks,", len(na), "not applicable")

if __name__ == "__main__":
    main()
