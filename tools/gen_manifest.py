#!/usr/bin/env python3
"""Regenerates /verif/MANIFEST.json from the table below (kept next to the checks so that the
manifest, the dispatcher in sim/src/main.rs and DESIGN.md section 2 stay in step)."""
import json, os, subprocess

ROOT = os.path.dirname(os.path.dirname(os.path.abspath(__file__)))

TECH = "deterministic simulation with fault injection: seeded search over I/O schedules, faults and call histories against the real code, oracle = "

CHECKS = {
    "C03": ("exploration", "4/C03", TECH + "independent decode of the input at every reported offset + tiling",
            "Seeded runs of the real iterator over scripted sources (chunking, capacity → compaction/growth); every successful item is re-derived from the input bytes by an independent decoder. Sampling, not proof.",
            "Trusted: the reference decoder (refdec.rs walk), the reference encoder used to make valid inputs, the hand-written PRNG. Runs that panic are left to C05."),
    "C04": ("exploration", "4/C04", TECH + "differential against the slice run of the same bytes",
            "Seeded random delivery schedules plus systematic sweeps per input (chunk sizes 1-17, every split position, capacities 0..41, all 2^(len-1) compositions for inputs <= 12 bytes), EOF pauses at tag boundaries, Interrupted; compared event by event (items, offsets, every error field) with the whole-input run.",
            "Trusted: the slice run of the real iterator as reference (schedule-independent defects are other checks' business); pause placement uses the reference run's item offsets."),
    "C05": ("exploration", "4/C05", TECH + "no unwinding, call/step budgets, item bound, fusedness, error identity via tokens",
            "Seeded histories of next()/try_recover() over arbitrary and adversarial bytes, all configurations, both specification kinds, with hard errors / Interrupted / pauses injected into reads; each API call under catch_unwind, budgets and a 30 s watchdog for hangs.",
            "Trusted: catch_unwind sees every panic (library built with overflow checks and debug assertions); size limit kept <= 1 MiB."),
    "C06": ("exploration", "4/C06", TECH + "independent nesting / declared-path NFA / extent checker over the emitted items",
            "Seeded strict-mode parses of valid, mid-document, byte-faulted and structurally faulted documents (element moved/duplicated, id substituted, size changed, size → unknown marker) under random schedules; emitted items replayed against the reference checker.",
            "Trusted: ref_match (path NFA) and the checker's own tiling; unknown-size closing moments are C07's subject."),
}

NOT_APPLICABLE = {
    "C15": "pure functions of their arguments (tools vint codec): no reader, writer, allocator, schedule, fault or call history enters the statement, so a simulator adds nothing over plain enumeration; not a simulation target (DESIGN 4/C15).",
    "C16": "pure functions (arr_to_u64/i64/f64 and the writer's width selection): no seam, schedule or fault; exercised only incidentally by C01/C03/C05 (DESIGN 4/C15-C16).",
    "C18": "compile-time proc-macro: a statement about generated programs and compile errors; nothing executes under a seam, schedule or fault (DESIGN 4/C18).",
}

PENDING = {}

def main():
    props = [json.loads(l)["id"] for l in open(os.path.join(ROOT, "properties.jsonl"))]
    commits = []
    checks = []
    for pid in props:
        if pid not in CHECKS:
            continue
        level, ref, tech, text, note = CHECKS[pid]
        checks.append({
            "property_id": pid,
            "quick_cmd": f"./check {pid} quick",
            "thorough_cmd": f"./check {pid} thorough",
            "evidence_file": f"/verif/evidence/{pid}.json",
            "replay_cmd_template": "./check replay {path}",
            "engine": "ebml-sim",
            "level_claimed": {"category": level, "text": text, "design_ref": "DESIGN.md section " + ref},
            "level_note": note,
            "technique": tech,
        })
    na = []
    for pid in props:
        if pid in CHECKS:
            continue
        if pid in NOT_APPLICABLE:
            na.append({"property_id": pid, "reason": NOT_APPLICABLE[pid]})
        else:
            na.append({"property_id": pid, "reason": PENDING.get(pid, "not claimed yet: the check for this property has not been built in this session (design in DESIGN.md section 4); no assurance is claimed.")})
    m = {
        "version": 1,
        "setup_cmd": "cd /verif/sim && CARGO_NET_OFFLINE=true cargo build --release --offline",
        "hooks": {
            "guard": "ebml_iterable_verif",
            "enable": "no hook exists: every seam the simulator needs (Read/Write/AsyncRead type parameters, with_capacity, the specification traits) is public API, so the checks build /repo unmodified as a path dependency with features futures + derive-spec",
            "baseline_off_cmd": "cd /repo && cargo test --workspace --no-fail-fast --offline",
            "source_commits": commits,
            "add_only": True,
        },
        "engines": [{
            "name": "ebml-sim",
            "path": "/verif/sim",
            "serves_properties": [c["property_id"] for c in checks],
            "kind_free_text": "single-process deterministic simulator: scripted Read/Write/AsyncRead seams, runtime specification seam, seeded xoshiro256** search, reference models, replay files with minimisation",
        }],
        "checks": checks,
        "not_applicable": na,
        "notes": "Repairs of genuine defects are unguarded 'fix:' commits in /repo, listed in /verif/known_findings.json. VERIF_SEED changes the sample; VERIF_THREADS the worker count (default 16).",
    }
    json.dump(m, open(os.path.join(ROOT, "MANIFEST.json"), "w"), indent=1)
    print("MANIFEST.json:", len(checks), "checks,", len(na), "not applicable")

if __name__ == "__main__":
    main()
