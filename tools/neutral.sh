#!/bin/bash
# Applies every behaviour-preserving refactoring in neutral/<id>/patch.diff to a scratch copy of /repo (one at a time),
# builds the simulator against it and runs the quick tier of ALL checks: none may report a violation.
# Usage: tools/neutral.sh [neutral/<id>/patch.diff ...]      (default: all of them)
cd "$(dirname "$0")/.." || exit 2
patches=("$@"); [ ${#patches[@]} -eq 0 ] && patches=(neutral/*/patch.diff)
out=$(ALL=1 tools/sensitivity.sh "${patches[@]}" 2>&1 | grep -v "^sensitivity:")
echo "$out"
if echo "$out" | grep -q "CAUGHT\|=rc[0-9]\|DOES NOT APPLY\|BUILD FAILED"; then echo "neutral: ALARM on behaviour-preserving code (or a patch no longer applies)"; exit 1; fi
echo "neutral: ${#patches[@]} refactorings, no check raised an alarm"
