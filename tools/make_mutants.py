#!/usr/bin/env python3
"""Builds /verif/mutants/*.patch: deliberate breakages of the library (each must still compile and pass
the 36 baseline tests, which this script verifies) used by tools/sensitivity.sh to show that the
checks catch them. Patches are made against /repo HEAD in a scratch clone under /tmp/mut."""
import os, subprocess, sys, json, shutil

SCRATCH = "/tmp/mut/repo"
OUT = "/verif/mutants"

def sh(cmd, cwd=None, check=True):
    r = subprocess.run(cmd, shell=True, cwd=cwd, capture_output=True, text=True)
    if check and r.returncode != 0:
        raise RuntimeError(cmd + "\n" + r.stdout + r.stderr)
    return r

# name, file, old, new, expected catching properties, description
M = [
 ("m01_compaction_offset", "src/tag_iterator.rs",
  "                self.buffer_offset = Some(self.current_offset());\n                self.internal_buffer_position = 0;",
  "                if self.buffered_byte_length > 0 { self.buffer_offset = Some(self.current_offset()); }\n                self.internal_buffer_position = 0;",
  ["C03", "C04"], "buffer compaction advances buffer_offset only when unconsumed bytes are carried over"),
 ("m02_recover_no_enlarge", "src/tag_iterator.rs",
  "                tag.size = EBMLSize::Known(size + diff);",
  "                tag.size = EBMLSize::Known(if diff > 1 { size + diff } else { *size });",
  ["C14"], "try_recover does not enlarge open known-size masters when exactly one byte was skipped"),
 ("m03_swallow_read_error", "src/tag_iterator.rs",
  "                if !self.private_read(self.buffered_byte_length)? {\n                    return Ok(false);\n                }",
  "                if !self.private_read(self.buffered_byte_length).unwrap_or(false) {\n                    return Ok(false);\n                }",
  ["C05"], "a source error during refill is treated as end of input"),
 ("m04_end_offset_is_data_start", "src/tag_iterator.rs",
  "            self.emission_queue.extend(self.tag_stack.drain(index..).map(|t| Ok((t.tag, t.tag_start))).rev());\n        }\n\n        if let Some(next_read)",
  "            self.emission_queue.extend(self.tag_stack.drain(index..).map(|t| Ok((t.tag, t.data_start))).rev());\n        }\n\n        if let Some(next_read)",
  ["C03"], "End of a known-size master reports the offset of its data instead of its tag"),
 ("m05_header_short_lookahead", "src/tag_iterator.rs",
  "        self.ensure_data_read(16)?;\n        let (tag_id, id_len) = self.peek_tag_id()?;",
  "        let (tag_id, id_len) = self.peek_tag_id()?;",
  ["C04"], "the 16-byte header lookahead is dropped: only the 8 bytes the id lookahead asks for are guaranteed, so a long size field after a long id fails when data arrives in small reads"),
 ("m06_grow_without_copy", "src/tag_iterator.rs",
  "            let mut new_buffer = Vec::from(&self.buffer[..]);\n            new_buffer.resize(required_capacity, 0);",
  "            let mut new_buffer = Vec::from(&self.buffer[..self.internal_buffer_position.min(self.buffer.len())]);\n            new_buffer.resize(required_capacity, 0);",
  ["C04", "C03"], "buffer growth keeps only the consumed prefix: the bytes of the current tag already read are zeroed"),
 ("m07_unknown_only_8_byte", "src/tag_iterator_util.rs",
  "            7 => if size == ((1 << (7 * 7)) - 1) { return Unknown; },",
  "            7 => {},",
  ["C07"], "the 7-byte all-ones size is no longer recognised as unknown size"),
 ("m08_oversize_tolerance_disables_limit", "src/tag_iterator.rs",
  "        if let Some(max_size) = self.max_allowed_tag_size {\n            if size.is_known() && size.value() > max_size {",
  "        if let Some(max_size) = self.max_allowed_tag_size {\n            if (self.allowed_errors & OVERSIZED_CHILD_ERROR == 0) && size.is_known() && size.value() > max_size {",
  ["C13", "C17"], "tolerating oversized children also switches the size limit off"),
 ("m09_hierarchy_not_checked_for_masters", "src/tag_iterator.rs",
  "            if self.has_determined_doc_path && !self.validate_tag_path(tag_id) {",
  "            if self.has_determined_doc_path && !matches!(spec_tag_type, Some(TagDataType::Master)) && !self.validate_tag_path(tag_id) {",
  ["C06", "C11", "C13"], "the reader validates the hierarchy of leaves only"),
 ("m10_limit_skipped_for_raw", "src/tag_iterator.rs",
  "            if size.is_known() && size.value() > max_size {",
  "            if spec_tag_type.is_some() && size.is_known() && size.value() > max_size {",
  ["C17"], "the size limit is not applied to ids outside the specification"),
 ("m11_utf8_char_count", "src/tag_writer.rs",
  "        let size: u64 = slice.len().try_into().expect(\"couldn't convert usize to u64\");",
  "        let size: u64 = data.chars().count().try_into().expect(\"couldn't convert usize to u64\");",
  ["C01"], "the writer sizes a UTF-8 element by characters instead of bytes"),
 ("m12_flush_when_innermost_unknown", "src/tag_writer.rs",
  "        if !self.open_tags.iter().any(|t| matches!(t.1, Known(_))) {\n            self.private_flush()\n        } else {\n            Ok(())\n        }\n    }\n\n    ///\n    /// Write a tag with an unknown size",
  "        if !self.open_tags.iter().any(|t| matches!(t.1, Known(_))) || (self.open_tags.len() >= 3 && matches!(self.open_tags.last(), Some(t) if !matches!(t.1, Known(_)))) {\n            self.private_flush()\n        } else {\n            Ok(())\n        }\n    }\n\n    ///\n    /// Write a tag with an unknown size",
  ["C10", "C01"], "the writer also flushes when at least three masters are open and the innermost is unknown-size, even inside a known-size one"),
 ("m13_full_children_inherit_width", "src/tag_writer.rs",
  "                            self.write(child)\n                        }).and_then(|_| self.end_tag(tag_id));",
  "                            self.write_explicit_sized::<TSpec, SIZE_LENGTH>(child, child.get_id(), TSpec::get_tag_data_type(child.get_id()))\n                        }).and_then(|_| self.end_tag(tag_id));",
  ["C09"], "children of a Full master inherit its explicit size width (and skip validation)"),
 ("m14_async_drops_byte_of_full_reads", "src/nonblocking.rs",
  "                            self.iterator.get_mut().get_mut().extend_from_slice(&self.buffer[..len]);",
  "                            self.iterator.get_mut().get_mut().extend_from_slice(&self.buffer[..len.min(self.buffer.len() - 1)]);",
  ["C20"], "the async iterator loses the last byte of a read that fills the 64 KiB transfer buffer"),
 ("m15_eof_size_none_when_no_payload", "src/tag_iterator.rs",
  "                return Err(TagIteratorError::UnexpectedEOF { tag_start, tag_id: Some(tag_id), tag_size: Some(size), partial_data:",
  "                return Err(TagIteratorError::UnexpectedEOF { tag_start, tag_id: Some(tag_id), tag_size: if self.internal_buffer_position + header_len == self.buffered_byte_length { None } else { Some(size) }, partial_data:",
  ["C12"], "UnexpectedEOF omits the tag size when no payload byte was available"),
 ("m16_buffered_error_swallowed", "src/tag_iterator.rs",
  "                    Err(_) => {\n                        // The master can't be completed - like its children, it is dropped in favor of the error\n                        self.emission_queue.drain(..position);\n                        return true;\n                    },",
  "                    Err(e) => {\n                        // The master can't be completed - like its children, it is dropped in favor of the error\n                        let keep = if matches!(e, TagIteratorError::CorruptedFileData(_)) { position + 1 } else { position };\n                        self.emission_queue.drain(..keep);\n                        return true;\n                    },",
  ["C08"], "an error of the corruption kind inside a buffered master is dropped together with the master"),
 ("m22_buffering_forgets_progress", "src/tag_iterator.rs",
  "                self.buffering_progress = Some((position, nested_depth));\n                return false;",
  "                self.buffering_progress = Some((position, 0));\n                return false;",
  ["C04"], "when buffering is interrupted by a temporary end of the source, the same-id nesting depth reached so far is forgotten"),
 ("m18_paused_none_closes_known", "src/tag_iterator.rs",
  "        } else if self.emit_master_end_when_eof {",
  "        } else if self.emit_master_end_when_eof || self.tag_stack.len() > 3 {",
  ["C04", "C20"], "with EOF closing disabled, a temporary end of data still closes everything once more than three masters are open"),
 ("m19_close_from_innermost_match", "src/tag_iterator.rs",
  "                let ended_index = (unknown_run_start..self.tag_stack.len()).find(|&index| self.tag_stack[index].is_ended_by(next_id));",
  "                let ended_index = (unknown_run_start..self.tag_stack.len()).rev().find(|&index| self.tag_stack[index].is_ended_by(next_id));",
  ["C07", "C06"], "when a tag ends several nested unknown-size masters, only those from the innermost match inwards are closed"),
 ("m20_global_min_ignored", "src/spec_util.rs",
  "            let min = usize::try_from(min.unwrap_or(0)).unwrap_or(usize::MAX);",
  "            let min = usize::try_from(min.unwrap_or(0)).unwrap_or(usize::MAX).min(1);",
  ["C11"], "a global placeholder's minimum above 1 is treated as 1"),
 ("m21_recover_spins", "src/tag_iterator.rs",
  "            self.internal_buffer_position += 1;\n            if self.peek_valid_tag_header().is_ok() {",
  "            if self.buffer[self.internal_buffer_position] != 0x0b { self.internal_buffer_position += 1; }\n            if self.peek_valid_tag_header().is_ok() {",
  ["C05"], "the recovery scan does not advance past a 0x0b byte: try_recover() spins forever without reading (caught by the watchdog as a hang)"),
 ("m23_matcher_recursion_never_ends", "src/spec_util.rs",
  "            (min..=max).any(|count| path_matches(rest, &parents[count..]))",
  "            (min..=max).any(|count| if count == 0 && min == 0 && !parents.is_empty() && rest.is_empty() { path_matches(path, parents) } else { path_matches(rest, &parents[count..]) })",
  ["C11"], "the placeholder matcher recurses on unchanged arguments for a trailing placeholder with minimum 0 and a non-empty chain: stack overflow (reported through the abort handler of the worker process)"),
 ("m25_async_read_error_ends_stream", "src/nonblocking.rs",
  "                        Err(e) => {\n                            return Some(Err(TagIteratorError::ReadError { source: e }));\n                        },",
  "                        Err(_) => {\n                            self.source_exhausted = true;\n                            self.iterator.emit_master_end_when_eof(true);\n                        },",
  ["C20"], "an I/O error of the async source is treated as the end of the source: open masters are closed and the stream ends normally"),
]

def main():
    os.makedirs(OUT, exist_ok=True)
    if os.path.exists("/tmp/mut"):
        shutil.rmtree("/tmp/mut")
    os.makedirs("/tmp/mut")
    sh("git clone -q /repo " + SCRATCH)
    expect = {}
    for name, f, old, new, props, desc in M:
        p = os.path.join(SCRATCH, f)
        s = open(p, newline="").read()
        crlf = "\r\n" in s
        o, n = old, new
        if crlf:
            o = o.replace("\n", "\r\n"); n = n.replace("\n", "\r\n")
        if s.count(o) != 1:
            print("SKIP", name, ": anchor found", s.count(o), "times"); continue
        open(p, "w", newline="").write(s.replace(o, n))
        r = sh("CARGO_TARGET_DIR=/tmp/mut/target cargo test --workspace --offline 2>&1 | grep -E '^test result|^error' ", cwd=SCRATCH, check=False)
        ok = r.stdout.count("test result: ok") >= 3 and "FAILED" not in r.stdout and not any(l.startswith("error") for l in r.stdout.splitlines())
        passed = sum(int(l.split("ok. ")[1].split(" passed")[0]) for l in r.stdout.splitlines() if "test result: ok" in l)
        if not ok or passed < 36:
            print("DISCARD", name, ": baseline does not pass:", r.stdout.strip().replace("\n", " | ")[:300])
        else:
            d = subprocess.run("git diff", shell=True, cwd=SCRATCH, capture_output=True).stdout  # bytes: keep CRLF
            open(os.path.join(OUT, name + ".patch"), "wb").write(d)
            expect[name] = {"caught_by": props, "what": desc}
            print("OK", name, passed, "baseline tests pass")
        sh("git checkout -q -- .", cwd=SCRATCH)
    json.dump(expect, open(os.path.join(OUT, "expect.json"), "w"), indent=1)
    shutil.rmtree("/tmp/mut")

if __name__ == "__main__":
    main()
