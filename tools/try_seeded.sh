#!/bin/bash
# Applies a seeded breakage to /repo, runs the quick tier of the given checks (default: all) from /verif,
# and undoes the change straight afterwards (also on interruption). Evidence files written during the
# run are restored from git. Usage: tools/try_seeded.sh <seeded-name> [checks...]
set -u
NAME="$1"; shift
P=/verif/seeded/$NAME/patch.diff
[ -f "$P" ] || { echo "no $P"; exit 2; }
CHECKS="${*:-C01 C02 C03 C04 C05 C06 C07 C08 C09 C10 C11 C12 C13 C14 C17 C19 C20}"
restore() { git -C /repo checkout -q -- . ; git -C /verif checkout -q -- evidence 2>/dev/null; }
trap restore EXIT
git -C /repo diff --quiet || { echo "/repo is not clean"; exit 2; }
git -C /repo apply "$P" || { echo "$NAME: patch does not apply"; exit 2; }
line="$NAME:"
for c in $CHECKS; do
  out=$(cd /verif && ./check $c quick 2>/dev/null); rc=$?
  if [ $rc -eq 1 ]; then clause=$(echo "$out" | grep -o "violates clause '[^']*'\|kills its worker\|hangs" | head -1 | sed "s/violates clause //"); line="$line $c=CAUGHT($clause)";
  elif [ $rc -eq 0 ]; then line="$line $c=ok"; else line="$line $c=rc$rc"; fi
done
echo "$line"
