#!/bin/bash
# Confirms a seeded breakage produced in a scratch worktree: with the change the 36 baseline tests pass and
# the demonstration fails; without the change the demonstration passes. Then copies it to /verif/seeded/<name>/.
# Usage: tools/verify_seeded.sh <worktree> <name>
set -u
WT="$1"; NAME="$2"
cd "$WT" || exit 2
[ -f OUT/patch.diff ] || { echo "$NAME: no OUT/patch.diff"; exit 2; }
[ -f tests/demo_breakage.rs ] || cp OUT/demo_breakage.rs tests/demo_breakage.rs
# state: change applied?
git diff --quiet -- src specification specification-derive && { git apply OUT/patch.diff || { echo "$NAME: patch does not apply"; exit 2; }; }
mv tests/demo_breakage.rs /tmp/demo_$NAME.rs
base=$(cargo test --workspace --offline 2>&1 | grep -E "^test result")
passed=$(echo "$base" | sed -n 's/.*ok\. \([0-9]*\) passed.*/\1/p' | paste -sd+ | bc)
failed=$(echo "$base" | grep -c FAILED)
mv /tmp/demo_$NAME.rs tests/demo_breakage.rs
with=$(cargo test --offline --features futures,derive-spec --test demo_breakage 2>&1 | grep -E "^test result" | tail -1)
# (git stash is shared between worktrees of one repository: reverse-apply instead)
git diff -- src specification specification-derive > /tmp/verify_$NAME.diff
git apply -R /tmp/verify_$NAME.diff
without=$(cargo test --offline --features futures,derive-spec --test demo_breakage 2>&1 | grep -E "^test result" | tail -1)
git apply /tmp/verify_$NAME.diff; rm -f /tmp/verify_$NAME.diff
echo "$NAME: baseline with change: $passed passed, $failed failing suites | demo with change: $with | demo without: $without"
if [ "$passed" -ge 42 ] && [ "$failed" -eq 0 ] && echo "$with" | grep -q FAILED && echo "$without" | grep -q "test result: ok"; then
  mkdir -p /verif/seeded/$NAME
  cp OUT/patch.diff OUT/meta.json /verif/seeded/$NAME/
  cp tests/demo_breakage.rs /verif/seeded/$NAME/demo_breakage.rs
  echo "$NAME: CONFIRMED -> /verif/seeded/$NAME"
else
  echo "$NAME: NOT CONFIRMED"; exit 1
fi
