#!/bin/bash
# Determinism self-check (DESIGN section 5): for every check
#  (1) per-run digests (case, verdict, every counter) of N run indices from two separate processes must be identical;
#  (2) the evidence of a batch must not depend on the worker count: N runs at 1, 5 and 16 workers, twice each,
#      compared after removing wall-clock fields.
# Usage: tools/determinism.sh [N]   (default 20000)
set -u
cd "$(dirname "$0")/.." || exit 2
N="${1:-20000}"
./check selfcheck >/dev/null || exit 2
BIN=./sim/target/release/ebml-sim
T=/tmp/determinism.$$; mkdir -p "$T"; trap 'rm -rf "$T"' EXIT
bad=0
for c in C01 C02 C03 C04 C05 C06 C07 C08 C09 C10 C11 C12 C13 C14 C17 C19 C20; do
  n=$N; case $c in C04|C11|C12|C14|C19) n=$((N/10));; esac
  VERIF_ROOT="$T" $BIN digest $c quick 0 $n > "$T/d1" 2>/dev/null &
  VERIF_ROOT="$T" $BIN digest $c quick 0 $n > "$T/d2" 2>/dev/null &
  wait
  if ! cmp -s "$T/d1" "$T/d2" || [ ! -s "$T/d1" ]; then echo "$c: per-run digests DIFFER between two processes"; bad=1; fi
  ref=""
  for w in 1 5 16 16 5 1; do
    mkdir -p "$T/w"; cp known_findings.json "$T/w/"
    VERIF_ROOT="$T/w" VERIF_THREADS=$w $BIN $c quick --runs $n >/dev/null 2>&1
    h=$(python3 -c "
import json,sys,hashlib
j=json.load(open('$T/w/evidence/$c.json'))
j.pop('wall_s',None); cov=j['coverage']; [cov.pop(k,None) for k in ('runs_per_hour','workers','worker_kind','samples')]
print(hashlib.sha256(json.dumps(j,sort_keys=True).encode()).hexdigest())")
    if [ -z "$ref" ]; then ref=$h; elif [ "$h" != "$ref" ]; then echo "$c: evidence differs at $w workers"; bad=1; fi
  done
  echo "$c: $(wc -l < "$T/d1") per-run digests identical across processes; batch of $n runs identical at 1/5/16 workers (x2)"
done
[ $bad -eq 0 ] && echo "determinism: OK" || { echo "determinism: FAILED"; exit 1; }
