#!/bin/bash
# Runs the thorough tier of every check in sequence (each uses all 16 cores). ~1.5 h.
cd "$(dirname "$0")/.." || exit 2
rc=0
for c in C01 C02 C03 C04 C05 C06 C07 C08 C09 C10 C11 C12 C13 C14 C17 C19 C20; do
  ./check $c thorough 2>&1 | grep -E "^$c:|VIOLATION|KNOWN-FINDING|harness error" ; r=${PIPESTATUS[0]}
  [ $r -ne 0 ] && rc=$r
done
exit $rc
