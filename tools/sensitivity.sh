#!/bin/bash
# Sensitivity self-check: applies each deliberate breakage (mutants/*.patch, seeded/*/patch.diff) to a
# scratch copy of /repo (outside /repo and /verif, removed afterwards), builds the simulator against it
# and runs the quick tier of the checks that are expected to catch it (or all checks with ALL=1).
# Prints one line per (patch, check): CAUGHT / missed, and a summary. Exit 1 if an expected catch is missed.
# Usage: tools/sensitivity.sh [patch files...]   (default: all)
set -u
VERIF="$(cd "$(dirname "$0")/.." && pwd)"
S=/tmp/sens.$$
rm -rf "$S"; mkdir -p "$S/sim/.cargo" "$S/out"
trap 'rm -rf "$S"' EXIT
sed "s#path = \"/repo\"#path = \"$S/repo\"#" "$VERIF/sim/Cargo.toml" > "$S/sim/Cargo.toml"
cp "$VERIF/sim/Cargo.lock" "$S/sim/"; cp "$VERIF/sim/.cargo/config.toml" "$S/sim/.cargo/"
cp -r "$VERIF/sim/src" "$S/sim/src"   # a snapshot: edits made while this runs do not leak in
cp "$VERIF/known_findings.json" "$S/out/"
ALLCHECKS="C01 C02 C03 C04 C05 C06 C07 C08 C09 C10 C11 C12 C13 C14 C17 C19 C20"
patches=("$@")
if [ ${#patches[@]} -eq 0 ]; then patches=("$VERIF"/mutants/*.patch "$VERIF"/seeded/*/patch.diff); fi
missed=0; total=0
for p in "${patches[@]}"; do
  [ -f "$p" ] || continue
  p="$(readlink -f "$p")"
  name="$(basename "$(dirname "$p")")/$(basename "$p")"
  rm -rf "$S/repo"; rsync -a --exclude target --exclude .git /repo/ "$S/repo/"
  # cargo decides by modification time: a file restored to its (older) original time would leave the crate it belongs
  # to compiled from the previous patch. All sources get the current time, so every workspace crate is rebuilt.
  find "$S/repo" -name "*.rs" -exec touch {} +
  if ! (cd "$S/repo" && (git apply --whitespace=nowarn "$p" 2>/dev/null || patch --binary -p1 -s < "$p")); then echo "$name: PATCH DOES NOT APPLY"; missed=$((missed+1)); continue; fi
  if ! (cd "$S/sim" && CARGO_TARGET_DIR="$S/target" CARGO_NET_OFFLINE=true cargo build --release --offline -q 2>"$S/build.log"); then echo "$name: BUILD FAILED"; tail -5 "$S/build.log"; missed=$((missed+1)); continue; fi
  # expected catchers
  exp=""
  if [[ "$p" == */mutants/* ]]; then
    exp=$(python3 -c "import json,sys,os; e=json.load(open('$VERIF/mutants/expect.json')); print(' '.join(e.get(os.path.basename('$p')[:-6],{}).get('caught_by',[])))")
  elif [ -f "$(dirname "$p")/expect" ]; then
    # an 'expect' file next to a seeded patch overrides the target property: the checks that are to catch it
    # (empty = deliberately not judged, see NOTE.md there)
    exp=$(cat "$(dirname "$p")/expect")
  elif [ -f "$(dirname "$p")/meta.json" ]; then
    exp=$(python3 -c "import json; m=json.load(open('$(dirname "$p")/meta.json')); print(m.get('property',''))")
  fi
  checks="$exp"; [ "${ALL:-0}" = "1" ] && checks="$ALLCHECKS"
  line="$name:"
  caught_any=0
  for c in $checks; do
    out=$(cd "$S/out" && VERIF_ROOT="$S/out" timeout 600 "$S/target/release/ebml-sim" "$c" quick 2>/dev/null); rc=$?
    if [ $rc -eq 1 ] && echo "$out" | grep -q "^VIOLATION property=$c "; then
      clause=$(echo "$out" | grep -o "violates clause '[^']*'" | head -1 | sed "s/violates clause //")
      # the replay file must reproduce the violation in a fresh process (same mutated library) ...
      rp=$(echo "$out" | sed -n "s/^VIOLATION property=$c replay=//p" | head -1)
      (cd "$S/out" && VERIF_ROOT="$S/out" timeout 120 "$S/target/release/ebml-sim" replay "$rp" >/dev/null 2>&1); rrc=$?
      # ... and must not fail against the unchanged library
      (cd "$S/out" && VERIF_ROOT="$S/out" timeout 120 "$VERIF/sim/target/release/ebml-sim" replay "$rp" >/dev/null 2>&1); urc=$?
      rep="replay-ok"; [ $rrc -ne 1 ] && rep="REPLAY-DID-NOT-REPRODUCE(rc$rrc)"; [ $urc -eq 1 ] && rep="$rep,REPLAY-FAILS-ON-UNCHANGED-TREE"
      line="$line $c=CAUGHT($clause,$rep)"; caught_any=1
    elif [ $rc -eq 0 ]; then line="$line $c=missed"
    else line="$line $c=rc$rc"; fi
  done
  total=$((total+1))
  # an expected catcher that missed counts
  for c in $exp; do
    if ! echo "$line" | grep -q " $c=CAUGHT"; then missed=$((missed+1)); line="$line  <-- expected $c to catch"; fi
  done
  echo "$line"
  # with ALL=1 the full detection picture is recorded next to a seeded patch
  if [ "${ALL:-0}" = "1" ] && [[ "$p" == */seeded/* ]]; then
    python3 - "$line" "$(dirname "$p")/detected.json" <<'PY'
import sys,re,json
line,out=sys.argv[1],sys.argv[2]
caught={m.group(1):m.group(2) for m in re.finditer(r"(C\d+)=CAUGHT\(([^)]*)\)",line)}
missed=re.findall(r"(C\d+)=missed",line)
other=re.findall(r"(C\d+)=(rc\d+)",line)
json.dump({"quick_tier_of_every_check":{"caught_by":caught,"not_caught_by":missed,"process_died":dict(other)}},open(out,"w"),indent=1)
PY
  fi
done
echo "sensitivity: $total patches, $missed expected catches missed"
[ $missed -eq 0 ]
