//! Drivers: run the real `TagIterator`, `TagWriter` and `TagIteratorAsync` against the seams,
//! one API call at a time, each under `catch_unwind`, and record a neutral trace.

use std::panic::{catch_unwind, AssertUnwindSafe};
use std::sync::Arc;

use ebml_iterable::error::{CorruptedFileError, TagIteratorError, TagWriterError};
use ebml_iterable::iterator::AllowableErrors;
use ebml_iterable::{TagIterator, TagWriter, WriteOptions};
use serde_json::{json, Value as J};

use crate::io::{error_token, AScript, DeferredWakes, ExecError, RScript, ReadLog, ReadStats, SimAsyncRead, SimReader, SimWriter, WScript};
use crate::spec::{from_tagv, to_tagv, DTag, Spec, SpecKind, SpecTable, StaticSpec, StaticSpec2};
use crate::val::{ErrV, TagV, Val, WErrV};

pub const ALLOW_IDS: u8 = 1;
pub const ALLOW_HIER: u8 = 2;
pub const ALLOW_OVERSIZE: u8 = 4;

#[derive(Clone, Debug, PartialEq, Eq)]
pub enum MaxSz {
    Default,
    Unlimited,
    Limit(usize),
}

#[derive(Clone, Debug, PartialEq, Eq)]
pub struct IterCfg {
    pub allow: u8,
    pub buffered: Vec<u64>,
    pub capacity: Option<usize>,
    pub max_size: MaxSz,
    pub eof_end: bool,
    /// how the configuration calls are made: `order % 6` = permutation of (allow_errors, set_max_allowable_tag_size,
    /// emit_master_end_when_eof); `order >= 6` = every call is made even when it only restates the default
    pub order: u8,
    /// a different configuration (tolerated mask, index into `RECONF_SIZES`, EOF closing) applied first and then
    /// overwritten by the real one: the final state is the same, the call history is not
    pub decoy: Option<(u8, u8, bool)>,
}

impl Default for IterCfg {
    fn default() -> Self {
        IterCfg { allow: 0, buffered: vec![], capacity: None, max_size: MaxSz::Default, eof_end: true, order: 0, decoy: None }
    }
}

impl IterCfg {
    pub fn to_j(&self) -> J {
        json!({
            "allow": self.allow,
            "buffered": self.buffered.iter().map(|i| format!("{:x}", i)).collect::<Vec<_>>(),
            "capacity": self.capacity,
            "max_size": match &self.max_size { MaxSz::Default => json!("default"), MaxSz::Unlimited => json!("unlimited"), MaxSz::Limit(n) => json!(n) },
            "eof_end": self.eof_end,
            "order": self.order,
            "decoy": self.decoy.map(|(m, k, e)| json!([m, k, e])),
        })
    }
    pub fn from_j(j: &J) -> Result<IterCfg, String> {
        Ok(IterCfg {
            allow: j.get("allow").and_then(|v| v.as_u64()).ok_or("cfg.allow")? as u8,
            buffered: j.get("buffered").and_then(|v| v.as_array()).ok_or("cfg.buffered")?.iter().map(|v| u64::from_str_radix(v.as_str().unwrap_or("0"), 16).unwrap_or(0)).collect(),
            capacity: j.get("capacity").and_then(|v| v.as_u64()).map(|v| v as usize),
            max_size: match j.get("max_size") {
                Some(J::String(s)) if s == "default" => MaxSz::Default,
                Some(J::String(s)) if s == "unlimited" => MaxSz::Unlimited,
                Some(J::Number(n)) => MaxSz::Limit(n.as_u64().unwrap_or(0) as usize),
                _ => return Err("cfg.max_size".into()),
            },
            eof_end: j.get("eof_end").and_then(|v| v.as_bool()).ok_or("cfg.eof_end")?,
            order: j.get("order").and_then(|v| v.as_u64()).unwrap_or(0) as u8,
            decoy: j.get("decoy").and_then(|v| v.as_array()).map(|a| (a[0].as_u64().unwrap_or(0) as u8, a[1].as_u64().unwrap_or(0) as u8, a[2].as_bool().unwrap_or(true))),
        })
    }
}

#[derive(Clone, Debug, PartialEq, Eq)]
pub enum DrvOp {
    Next,
    Recover,
    /// `allow_errors` with this mask (replaces the tolerated set)
    Allow(u8),
    /// `set_max_allowable_tag_size` with entry k of `RECONF_SIZES`
    MaxSize(u8),
    /// `emit_master_end_when_eof`
    EofEnd(bool),
}

/// size limits a mid-stream reconfiguration can choose from (index 0 = no limit... kept small, see C05 assumptions)
pub const RECONF_SIZES: [Option<usize>; 8] = [Some(1 << 20), Some(0), Some(1), Some(8), Some(64), Some(1000), Some(70_000), Some(300)];

impl DrvOp {
    fn to_s(&self) -> String {
        match self {
            DrvOp::Next => "n".into(),
            DrvOp::Recover => "r".into(),
            DrvOp::Allow(m) => format!("a{}", m & 7),
            DrvOp::MaxSize(k) => format!("m{}", k & 7),
            DrvOp::EofEnd(true) => "e".into(),
            DrvOp::EofEnd(false) => "E".into(),
        }
    }
    fn parse(s: &str) -> Vec<DrvOp> {
        let cs: Vec<char> = s.chars().collect();
        let mut out = Vec::new();
        let mut i = 0;
        while i < cs.len() {
            let d = |j: usize| cs.get(j).and_then(|c| c.to_digit(10)).unwrap_or(0) as u8 & 7;
            match cs[i] {
                'r' => out.push(DrvOp::Recover),
                'a' => {
                    out.push(DrvOp::Allow(d(i + 1)));
                    i += 1;
                }
                'm' => {
                    out.push(DrvOp::MaxSize(d(i + 1)));
                    i += 1;
                }
                'e' => out.push(DrvOp::EofEnd(true)),
                'E' => out.push(DrvOp::EofEnd(false)),
                _ => out.push(DrvOp::Next),
            }
            i += 1;
        }
        out
    }
}

/// Driver policy for the reader.
#[derive(Clone, Debug, PartialEq, Eq)]
pub enum Driver {
    /// `next()` until `None` or the first error (a strict parse ends there), then `extra` more calls
    UntilEnd { extra: usize },
    /// `next()` until `None`; after each error call `try_recover()` and go on (at most `max_errors` times)
    Recovering { max_errors: usize, extra: usize },
    /// explicit call history
    Script(Vec<DrvOp>),
    /// like UntilEnd, but a `None` while the source still has bytes is followed by another `next()`
    /// (streaming use with temporary EOF)
    Streaming { extra: usize },
    /// streaming use as the async wrapper does it: `next()` on through temporary EOFs until `None` with the
    /// source exhausted, then `emit_master_end_when_eof(true)`, then `next()` until `None`
    StreamingThenClose,
    /// `next()` until the first error, `try_recover()`, then `set_max_allowable_tag_size(Some(limit))`, then
    /// `next()` until `None` or an error: a limit that is set late applies to the very next tag
    RecoverThenLimit(usize),
    /// `next()` until `items` non-End items have been returned, then `set_max_allowable_tag_size(Some(limit))`, then
    /// `next()` until `None` or an error. (A batch of queued items always ends with the tag that was read, so right
    /// after a non-End item the queue is empty and everything that follows is read under the new limit.)
    LimitAfter { items: usize, limit: usize },
}

impl Driver {
    pub fn to_j(&self) -> J {
        match self {
            Driver::UntilEnd { extra } => json!({"until_end": extra}),
            Driver::Recovering { max_errors, extra } => json!({"recovering": max_errors, "extra": extra}),
            Driver::Streaming { extra } => json!({"streaming": extra}),
            Driver::StreamingThenClose => json!({"streaming_then_close": true}),
            Driver::RecoverThenLimit(m) => json!({"recover_then_limit": m}),
            Driver::LimitAfter { items, limit } => json!({"limit_after": items, "limit": limit}),
            Driver::Script(ops) => json!({"script": ops.iter().map(|o| o.to_s()).collect::<Vec<_>>().join("")}),
        }
    }
    pub fn from_j(j: &J) -> Result<Driver, String> {
        if let Some(e) = j.get("until_end") {
            Ok(Driver::UntilEnd { extra: e.as_u64().ok_or("until_end")? as usize })
        } else if let Some(e) = j.get("recovering") {
            Ok(Driver::Recovering { max_errors: e.as_u64().ok_or("recovering")? as usize, extra: j.get("extra").and_then(|v| v.as_u64()).unwrap_or(0) as usize })
        } else if let Some(k) = j.get("limit_after") {
            Ok(Driver::LimitAfter { items: k.as_u64().ok_or("limit_after")? as usize, limit: j.get("limit").and_then(|v| v.as_u64()).ok_or("limit")? as usize })
        } else if let Some(m) = j.get("recover_then_limit") {
            Ok(Driver::RecoverThenLimit(m.as_u64().ok_or("recover_then_limit")? as usize))
        } else if j.get("streaming_then_close").is_some() {
            Ok(Driver::StreamingThenClose)
        } else if let Some(e) = j.get("streaming") {
            Ok(Driver::Streaming { extra: e.as_u64().ok_or("streaming")? as usize })
        } else if let Some(s) = j.get("script").and_then(|v| v.as_str()) {
            Ok(Driver::Script(DrvOp::parse(s)))
        } else {
            Err("driver".into())
        }
    }
}

#[derive(Clone, Debug, PartialEq, Eq)]
pub enum Ev {
    /// `next()` returned `Some(Ok(tag))`; the offset is `last_emitted_tag_offset()` right after
    Tag(TagV, usize),
    Err(ErrV),
    None,
    RecoverOk,
    RecoverErr(ErrV),
    /// a configuration call was made (no result)
    Cfg,
    Panic(String),
}

impl Ev {
    pub fn short(&self) -> String {
        match self {
            Ev::Tag(t, o) => format!("{}@{}", t.short(), o),
            Ev::Err(e) => format!("Err({})", e.short()),
            Ev::None => "None".into(),
            Ev::RecoverOk => "RecoverOk".into(),
            Ev::RecoverErr(e) => format!("RecoverErr({})", e.short()),
            Ev::Cfg => "Cfg".into(),
            Ev::Panic(m) => format!("PANIC({})", m),
        }
    }
}

#[derive(Debug)]
pub struct RTrace {
    pub evs: Vec<Ev>,
    /// number of source `read` calls made before each event was returned (parallel to `evs`)
    pub reads_at: Vec<usize>,
    /// had the source already returned its final Ok(0) when each event was returned
    pub ended_at: Vec<bool>,
    pub reads: Vec<ReadLog>,
    pub rstats: ReadStats,
    pub read_calls: usize,
    pub source_ended: bool,
    pub budget_exceeded: bool,
    pub bytes_delivered: u64,
    pub api_calls: usize,
    /// the driver stopped because of its step cap, not because the parse ended
    pub step_cap_hit: bool,
}

impl RTrace {
    pub fn tags(&self) -> Vec<(TagV, usize)> {
        self.evs.iter().filter_map(|e| if let Ev::Tag(t, o) = e { Some((t.clone(), *o)) } else { None }).collect()
    }
    /// successful items up to (excluding) the first error / panic
    pub fn ok_prefix(&self) -> Vec<(TagV, usize)> {
        let mut v = Vec::new();
        for e in &self.evs {
            match e {
                Ev::Tag(t, o) => v.push((t.clone(), *o)),
                Ev::None | Ev::RecoverOk | Ev::Cfg => {}
                _ => break,
            }
        }
        v
    }
    pub fn first_error(&self) -> Option<&ErrV> {
        self.evs.iter().find_map(|e| match e {
            Ev::Err(x) | Ev::RecoverErr(x) => Some(x),
            _ => None,
        })
    }
    pub fn panic(&self) -> Option<&str> {
        self.evs.iter().find_map(|e| if let Ev::Panic(m) = e { Some(m.as_str()) } else { None })
    }
    pub fn short(&self, max: usize) -> String {
        let mut s: Vec<String> = self.evs.iter().take(max).map(|e| e.short()).collect();
        if self.evs.len() > max {
            s.push(format!("…(+{})", self.evs.len() - max));
        }
        s.join(" ")
    }
}

pub fn conv_err(e: &TagIteratorError) -> ErrV {
    match e {
        TagIteratorError::CorruptedFileData(c) => match c {
            CorruptedFileError::InvalidTagId { position, tag_id } => ErrV::InvalidTagId { pos: *position, id: *tag_id },
            CorruptedFileError::InvalidTagData { position, tag_id } => ErrV::InvalidTagData { pos: *position, id: *tag_id },
            CorruptedFileError::HierarchyError { found_tag_id, current_parent_id } => ErrV::Hierarchy { found: *found_tag_id, parent: *current_parent_id },
            CorruptedFileError::OversizedChildElement { position, tag_id, size } => ErrV::OversizedChild { pos: *position, id: *tag_id, size: *size },
            CorruptedFileError::InvalidTagSize { position, tag_id, size } => ErrV::InvalidTagSize { pos: *position, id: *tag_id, size: *size },
        },
        TagIteratorError::UnexpectedEOF { tag_start, tag_id, tag_size, partial_data } => ErrV::Eof { start: *tag_start, id: *tag_id, size: *tag_size, partial: partial_data.clone() },
        TagIteratorError::CorruptedTagData { tag_id, problem } => ErrV::TagData { id: *tag_id, problem: format!("{:?}", problem) },
        TagIteratorError::ReadError { source } => ErrV::Read { kind: format!("{:?}", source.kind()), token: error_token(source) },
    }
}

pub fn conv_werr(e: &TagWriterError) -> WErrV {
    match e {
        TagWriterError::UnexpectedTag { tag_id, current_path } => WErrV::UnexpectedTag { id: *tag_id, path: current_path.clone() },
        TagWriterError::TagIdError(id) => WErrV::TagId(*id),
        TagWriterError::TagSizeError(m) => WErrV::TagSize(m.clone()),
        TagWriterError::UnexpectedClosingTag { tag_id, expected_id } => WErrV::UnexpectedClosing { id: *tag_id, expected: *expected_id },
        TagWriterError::WriteError { source } => WErrV::Write { kind: format!("{:?}", source.kind()), token: crate::io::error_token(source) },
    }
}

thread_local! {
    /// set while a library call runs under catch_unwind: its panics are recorded, not printed
    pub static QUIET: std::cell::Cell<bool> = std::cell::Cell::new(false);
}

/// catch_unwind for calls into the library under test.
fn guarded<R>(f: impl FnOnce() -> R) -> std::thread::Result<R> {
    QUIET.with(|q| q.set(true));
    crate::alloc::enter();
    let r = catch_unwind(AssertUnwindSafe(f));
    crate::alloc::exit();
    QUIET.with(|q| q.set(false));
    r
}

/// catch_unwind for harness code that calls into the specification (accessors): quiet, and not counted as library allocation.
fn guarded_unaccounted<R>(f: impl FnOnce() -> R) -> std::thread::Result<R> {
    QUIET.with(|q| q.set(true));
    let r = catch_unwind(AssertUnwindSafe(f));
    QUIET.with(|q| q.set(false));
    r
}

fn panic_msg(p: Box<dyn std::any::Any + Send>) -> String {
    if let Some(s) = p.downcast_ref::<&str>() {
        s.to_string()
    } else if let Some(s) = p.downcast_ref::<String>() {
        s.clone()
    } else {
        "<non-string panic>".into()
    }
}

fn allow_list(cfg: &IterCfg) -> Vec<AllowableErrors> {
    let mut allow = Vec::new();
    if cfg.allow & ALLOW_IDS != 0 {
        allow.push(AllowableErrors::InvalidTagIds);
    }
    if cfg.allow & ALLOW_HIER != 0 {
        allow.push(AllowableErrors::HierarchyProblems);
    }
    if cfg.allow & ALLOW_OVERSIZE != 0 {
        allow.push(AllowableErrors::OversizedTags);
    }
    allow
}

fn configure<R: std::io::Read, T: Spec>(it: &mut TagIterator<R, T>, cfg: &IterCfg) {
    const PERMS: [[u8; 3]; 6] = [[0, 1, 2], [0, 2, 1], [1, 0, 2], [1, 2, 0], [2, 0, 1], [2, 1, 0]];
    let perm = PERMS[(cfg.order % 6) as usize];
    let always = cfg.order >= 6 || cfg.decoy.is_some();
    if let Some((m, k, e)) = cfg.decoy {
        for step in perm {
            match step {
                0 => it.allow_errors(&allow_list(&IterCfg { allow: m & 7, ..Default::default() })),
                // the library offers no way back to its default limit, so that one is only decoyed when a limit is set afterwards
                1 if cfg.max_size != MaxSz::Default => it.set_max_allowable_tag_size(RECONF_SIZES[(k & 7) as usize]),
                1 => {}
                _ => it.emit_master_end_when_eof(e),
            }
        }
    }
    for step in perm {
        match step {
            0 => {
                let mut allow = allow_list(cfg);
                // the list is a list, not a set: some histories name a class twice or in another order
                match cfg.order {
                    6 | 7 => allow.reverse(),
                    8 | 9 => allow.extend(allow_list(cfg)),
                    10 | 11 => allow.extend(allow_list(cfg).into_iter().take(1)),
                    _ => {}
                }
                if !allow.is_empty() || always {
                    it.allow_errors(&allow);
                }
            }
            1 => match cfg.max_size {
                MaxSz::Default => {}
                MaxSz::Unlimited => it.set_max_allowable_tag_size(None),
                MaxSz::Limit(n) => it.set_max_allowable_tag_size(Some(n)),
            },
            _ => {
                if !cfg.eof_end || always {
                    it.emit_master_end_when_eof(cfg.eof_end);
                }
            }
        }
    }
}

/// Draws a configuration call history (order, redundant calls, an overwritten earlier configuration).
pub fn gen_cfg_history(rng: &mut crate::rng::Rng, cfg: &mut IterCfg) {
    if rng.chance(1, 2) {
        cfg.order = rng.below(12) as u8;
    }
    if rng.chance(1, 6) {
        cfg.decoy = Some((rng.below(8) as u8, rng.below(8) as u8, rng.chance(1, 2)));
    }
}

fn buffered_tags<T: Spec>(cfg: &IterCfg) -> Vec<T> {
    cfg.buffered.iter().map(|id| from_tagv::<T>(&TagV::new(*id, Val::Start))).collect()
}

pub struct ReaderSetup<'a> {
    pub input: Arc<Vec<u8>>,
    pub virtual_tail: u64,
    pub cfg: &'a IterCfg,
    pub script: &'a RScript,
    pub driver: &'a Driver,
    /// cap on driver steps (API calls)
    pub max_steps: usize,
    pub keep_read_log: bool,
}

pub fn run_reader_t<T: Spec>(s: &ReaderSetup) -> RTrace {
    let mut src = SimReader::new(s.input.clone(), s.script.clone());
    src.virtual_tail = s.virtual_tail;
    if s.virtual_tail > 0 {
        // legitimately reading a virtual payload takes calls too
        src.call_budget += s.virtual_tail.min(1 << 26) as usize;
    }
    src.keep_log = s.keep_read_log;
    let bufd = buffered_tags::<T>(s.cfg);
    let mut it: TagIterator<SimReader, T> = match s.cfg.capacity {
        None => TagIterator::new(src, &bufd),
        Some(c) => TagIterator::with_capacity(src, &bufd, c),
    };
    configure(&mut it, s.cfg);

    let mut evs: Vec<Ev> = Vec::new();
    let mut reads_at: Vec<usize> = Vec::new();
    let mut ended_at: Vec<bool> = Vec::new();
    let mut steps = 0usize;
    let mut step_cap_hit = false;

    let do_next = |it: &mut TagIterator<SimReader, T>| -> Ev {
        // (the conversion of the emitted tag runs under the same guard: it calls the specification's accessors, and a
        // specification whose accessors disagree with its own type table is reported like a panic of the call)
        match guarded((|| {
            let r = it.next();
            let off = it.last_emitted_tag_offset();
            (r, off)
        })) {
            // (outside the allocator's accounting window: the copy made here is the harness's, not the library's)
            Ok((Some(Ok(t)), off)) => match guarded_unaccounted(|| to_tagv::<T>(&t)) {
                Ok(tv) => Ev::Tag(tv, off),
                Err(p) => Ev::Panic(panic_msg(p)),
            },
            Ok((Some(Err(e)), _)) => Ev::Err(conv_err(&e)),
            Ok((None, _)) => Ev::None,
            Err(p) => Ev::Panic(panic_msg(p)),
        }
    };
    let do_recover = |it: &mut TagIterator<SimReader, T>| -> Ev {
        match guarded((|| it.try_recover())) {
            Ok(Ok(())) => Ev::RecoverOk,
            Ok(Err(e)) => Ev::RecoverErr(conv_err(&e)),
            Err(p) => Ev::Panic(panic_msg(p)),
        }
    };

    macro_rules! push {
        ($ev:expr) => {{
            let ev = $ev;
            reads_at.push(it.get_ref().calls);
            ended_at.push(it.get_ref().ended);
            let stop = matches!(ev, Ev::Panic(_));
            evs.push(ev);
            steps += 1;
            if stop {
                break;
            }
            if steps >= s.max_steps {
                step_cap_hit = true;
                break;
            }
        }};
    }

    match s.driver {
        Driver::UntilEnd { extra } | Driver::Streaming { extra } => {
            let streaming = matches!(s.driver, Driver::Streaming { .. });
            let mut extra_left = *extra;
            let mut ended = false;
            #[allow(clippy::never_loop)]
            loop {
                let ev = do_next(&mut it);
                let fin = match &ev {
                    Ev::Tag(..) => false,
                    Ev::None => !(streaming && !it.get_ref().ended),
                    _ => true,
                };
                push!(ev);
                if fin || ended {
                    ended = true;
                    if extra_left == 0 {
                        break;
                    }
                    extra_left -= 1;
                }
            }
        }
        Driver::LimitAfter { items, limit } => {
            let mut seen = 0usize;
            let mut done = false;
            #[allow(clippy::never_loop)]
            loop {
                if !done && *items == 0 {
                    done = true;
                    it.set_max_allowable_tag_size(Some(*limit));
                    push!(Ev::Cfg);
                }
                let ev = do_next(&mut it);
                let non_end = matches!(&ev, Ev::Tag(t, _) if !t.is_end());
                let stop = !matches!(ev, Ev::Tag(..));
                push!(ev);
                if stop {
                    break;
                }
                if non_end {
                    seen += 1;
                    if !done && seen == *items {
                        done = true;
                        it.set_max_allowable_tag_size(Some(*limit));
                        push!(Ev::Cfg);
                    }
                }
            }
        }
        Driver::RecoverThenLimit(limit) => {
            let mut recovered = false;
            #[allow(clippy::never_loop)]
            loop {
                let ev = do_next(&mut it);
                let is_err = matches!(ev, Ev::Err(_));
                let stop = !matches!(ev, Ev::Tag(..));
                push!(ev);
                if is_err && !recovered {
                    recovered = true;
                    let r = do_recover(&mut it);
                    let ok = matches!(r, Ev::RecoverOk);
                    push!(r);
                    if !ok {
                        break;
                    }
                    it.set_max_allowable_tag_size(Some(*limit));
                    push!(Ev::Cfg);
                    continue;
                }
                if stop {
                    break;
                }
            }
        }
        Driver::StreamingThenClose => {
            let mut closing = false;
            #[allow(clippy::never_loop)]
            loop {
                let ev = do_next(&mut it);
                let is_none = matches!(ev, Ev::None);
                let stop = !matches!(ev, Ev::Tag(..) | Ev::None);
                push!(ev);
                if stop {
                    break;
                }
                if is_none && it.get_ref().ended {
                    if closing {
                        break;
                    }
                    closing = true;
                    it.emit_master_end_when_eof(true);
                    push!(Ev::Cfg);
                }
            }
        }
        Driver::Recovering { max_errors, extra } => {
            let mut errors = 0usize;
            let mut extra_left = *extra;
            loop {
                let ev = do_next(&mut it);
                let is_err = matches!(ev, Ev::Err(_));
                let is_none = matches!(ev, Ev::None);
                push!(ev);
                if is_none && !it.get_ref().ended {
                    // a temporary end of the source: the caller polls on
                    continue;
                }
                if is_none {
                    if extra_left == 0 {
                        break;
                    }
                    extra_left -= 1;
                }
                if is_err {
                    errors += 1;
                    if errors > *max_errors {
                        break;
                    }
                    let r = do_recover(&mut it);
                    let failed = matches!(r, Ev::RecoverErr(_));
                    push!(r);
                    if failed {
                        break;
                    }
                }
            }
        }
        Driver::Script(ops) => {
            for op in ops {
                let ev = match op {
                    DrvOp::Next => do_next(&mut it),
                    DrvOp::Recover => do_recover(&mut it),
                    DrvOp::Allow(m) => {
                        let c = IterCfg { allow: *m & 7, ..Default::default() };
                        let mut allow = allow_list(&c);
                        it.allow_errors(&std::mem::take(&mut allow));
                        Ev::Cfg
                    }
                    DrvOp::MaxSize(k) => {
                        it.set_max_allowable_tag_size(RECONF_SIZES[(*k & 7) as usize]);
                        Ev::Cfg
                    }
                    DrvOp::EofEnd(b) => {
                        it.emit_master_end_when_eof(*b);
                        Ev::Cfg
                    }
                };
                push!(ev);
            }
        }
    }

    let src = it.into_inner();
    RTrace {
        evs,
        reads_at,
        ended_at,
        read_calls: src.calls,
        source_ended: src.ended,
        budget_exceeded: src.budget_exceeded,
        bytes_delivered: src.bytes_delivered,
        rstats: src.stats.clone(),
        reads: src.log,
        api_calls: steps,
        step_cap_hit,
    }
}

pub fn run_reader(spec: &SpecTable, s: &ReaderSetup) -> RTrace {
    match spec.kind {
        SpecKind::Dyn => {
            crate::spec::install(spec);
            run_reader_t::<DTag>(s)
        }
        SpecKind::Static => run_reader_t::<StaticSpec>(s),
        SpecKind::Static2 => run_reader_t::<StaticSpec2>(s),
    }
}

/// Convenience: strict-mode style run over the whole input from a slice-like source.
pub fn slice_run(spec: &SpecTable, input: &Arc<Vec<u8>>, cfg: &IterCfg) -> RTrace {
    let mut c = cfg.clone();
    c.capacity = None;
    let n = input.len();
    run_reader(spec, &ReaderSetup { input: input.clone(), virtual_tail: 0, cfg: &c, script: &RScript::whole(), driver: &Driver::UntilEnd { extra: 0 }, max_steps: 4 * n + 64, keep_read_log: false })
}

// ---------------------------------------------------------------------------------------------
// Writer
// ---------------------------------------------------------------------------------------------

#[derive(Clone, Debug, PartialEq, Eq)]
pub enum Opt {
    Default,
    Width(u8),
    Unknown,
}

#[derive(Clone, Debug, PartialEq, Eq)]
pub enum WOp {
    Write(TagV, Opt),
    /// the deprecated `write_unknown_size`
    WriteUnknownDeprecated(TagV),
    WriteRaw(u64, Vec<u8>),
    Flush,
}

impl WOp {
    pub fn to_j(&self) -> J {
        match self {
            WOp::Write(t, o) => {
                let mut j = t.to_j();
                match o {
                    Opt::Default => {}
                    Opt::Width(w) => {
                        j["width"] = json!(w);
                    }
                    Opt::Unknown => {
                        j["unknown"] = json!(true);
                    }
                }
                json!({"write": j})
            }
            WOp::WriteUnknownDeprecated(t) => json!({"write_unknown_size": t.to_j()}),
            WOp::WriteRaw(id, b) => json!({"write_raw": format!("{:x}", id), "data": crate::val::bytes_to_j(b)}),
            WOp::Flush => json!("flush"),
        }
    }
    pub fn from_j(j: &J) -> Result<WOp, String> {
        if j.as_str() == Some("flush") {
            return Ok(WOp::Flush);
        }
        if let Some(w) = j.get("write") {
            let t = TagV::from_j(w)?;
            let o = if let Some(n) = w.get("width").and_then(|v| v.as_u64()) {
                Opt::Width(n as u8)
            } else if w.get("unknown").is_some() {
                Opt::Unknown
            } else {
                Opt::Default
            };
            return Ok(WOp::Write(t, o));
        }
        if let Some(w) = j.get("write_unknown_size") {
            return Ok(WOp::WriteUnknownDeprecated(TagV::from_j(w)?));
        }
        if let Some(id) = j.get("write_raw").and_then(|v| v.as_str()) {
            return Ok(WOp::WriteRaw(u64::from_str_radix(id, 16).map_err(|e| e.to_string())?, crate::val::bytes_from_j(j.get("data").ok_or("write_raw.data")?)?));
        }
        Err("wop".into())
    }
    pub fn short(&self) -> String {
        match self {
            WOp::Write(t, Opt::Default) => t.short(),
            WOp::Write(t, Opt::Width(w)) => format!("{}/w{}", t.short(), w),
            WOp::Write(t, Opt::Unknown) => format!("{}/unk", t.short()),
            WOp::WriteUnknownDeprecated(t) => format!("{}/unk-dep", t.short()),
            WOp::WriteRaw(id, b) => format!("raw{:x}[{}]", id, b.len()),
            WOp::Flush => "flush".into(),
        }
    }
}

#[derive(Debug)]
pub struct WTrace {
    /// per op: Ok / Err / panic message
    pub results: Vec<Result<(), WErrV>>,
    pub panic: Option<String>,
    /// bytes the sink held after each op
    pub delivered_after: Vec<usize>,
    /// result of the final `into_inner()` (not run after a panic)
    pub into_inner: Option<Result<(), WErrV>>,
    pub out: Vec<u8>,
    /// sink length after every single `write` call of the sink
    pub snapshots: Vec<usize>,
    pub partial_writes: usize,
    pub write_calls: usize,
    pub flushes: usize,
    /// injected sink failures that were actually returned, and how many of them had happened after each op
    pub failures: Vec<crate::io::WFailure>,
    pub failures_after: Vec<usize>,
    pub interrupted: usize,
    /// bytes the sink held at each delivered Interrupted, and how many had been delivered after each op
    pub interrupts_at: Vec<usize>,
    pub interrupts_after: Vec<usize>,
}

impl WTrace {
    pub fn all_ok(&self) -> bool {
        self.panic.is_none() && self.results.iter().all(|r| r.is_ok()) && matches!(self.into_inner, Some(Ok(())))
    }
}

#[allow(deprecated)]
pub fn run_writer_t<T: Spec>(ops: &[WOp], wscript: &WScript, finish: bool) -> WTrace {
    let sink = SimWriter::new(wscript.clone());
    let mut w = TagWriter::new(sink);
    let mut results = Vec::new();
    let mut delivered_after = Vec::new();
    let mut failures_after = Vec::new();
    let mut interrupts_after = Vec::new();
    let mut panic = None;
    for op in ops {
        let r = guarded((|| match op {
            WOp::Write(t, o) => {
                let tag = from_tagv::<T>(t);
                match o {
                    Opt::Default => w.write(&tag),
                    Opt::Width(n) => w.write_advanced(&tag, WriteOptions::set_size_byte_count(*n as usize)),
                    Opt::Unknown => w.write_advanced(&tag, WriteOptions::is_unknown_sized_element()),
                }
            }
            WOp::WriteUnknownDeprecated(t) => w.write_unknown_size(&from_tagv::<T>(t)),
            WOp::WriteRaw(id, b) => w.write_raw(*id, b),
            WOp::Flush => w.flush(),
        }));
        match r {
            Ok(Ok(())) => results.push(Ok(())),
            Ok(Err(e)) => results.push(Err(conv_werr(&e))),
            Err(p) => {
                panic = Some(panic_msg(p));
                break;
            }
        }
        delivered_after.push(w.get_ref().out.len());
        failures_after.push(w.get_ref().failures.len());
        interrupts_after.push(w.get_ref().interrupted);
    }
    let mut into_inner = None;
    let sink: Option<crate::io::SinkState> = if panic.is_none() && finish {
        // `into_inner` consumes the writer; when it fails the sink is dropped with it, and the sink leaves
        // its state behind when dropped (io::take_dropped_sink)
        match guarded(move || w.into_inner()) {
            Ok(Ok(mut s)) => {
                into_inner = Some(Ok(()));
                Some(s.take_state())
            }
            Ok(Err(e)) => {
                into_inner = Some(Err(conv_werr(&e)));
                crate::io::take_dropped_sink()
            }
            Err(p) => {
                panic = Some(panic_msg(p));
                crate::io::take_dropped_sink()
            }
        }
    } else {
        // peek without finishing
        Some(w.get_mut().take_state())
    };
    match sink {
        Some(s) => WTrace { results, panic, delivered_after, into_inner, out: s.out, snapshots: s.snapshots, partial_writes: s.partial_writes, write_calls: s.write_calls, flushes: s.flushes, failures: s.failures, failures_after, interrupted: s.interrupted, interrupts_at: s.interrupts_at, interrupts_after },
        None => WTrace { results, panic, delivered_after, into_inner, out: Vec::new(), snapshots: Vec::new(), partial_writes: 0, write_calls: 0, flushes: 0, failures: Vec::new(), failures_after, interrupted: 0, interrupts_at: Vec::new(), interrupts_after },
    }
}

pub fn run_writer(spec: &SpecTable, ops: &[WOp], wscript: &WScript, finish: bool) -> WTrace {
    match spec.kind {
        SpecKind::Dyn => {
            crate::spec::install(spec);
            run_writer_t::<DTag>(ops, wscript, finish)
        }
        SpecKind::Static => run_writer_t::<StaticSpec>(ops, wscript, finish),
        SpecKind::Static2 => run_writer_t::<StaticSpec2>(ops, wscript, finish),
    }
}

// ---------------------------------------------------------------------------------------------
// Async
// ---------------------------------------------------------------------------------------------

#[derive(Debug)]
pub struct ATrace {
    pub evs: Vec<Ev>,
    pub exec_error: Option<String>,
    pub polls: usize,
    pub reads: usize,
    pub pendings: usize,
    pub end_reads: usize,
    pub split_sizes: Vec<usize>,
    pub failures: Vec<(usize, u64)>,
}

/// Drives `TagIteratorAsync::next()` (use_stream = false) or the `into_stream()` adapter.
pub fn run_async_t<T: Spec>(input: &Arc<Vec<u8>>, buffered: &[u64], script: &AScript, use_stream: bool, max_items: usize, after_error: usize) -> ATrace {
    use ebml_iterable::nonblocking::TagIteratorAsync;
    use futures::StreamExt;
    let deferred = Arc::new(DeferredWakes::default());
    let cfg = IterCfg { buffered: buffered.to_vec(), ..Default::default() };
    let bufd = buffered_tags::<T>(&cfg);
    let mut evs = Vec::new();
    let mut polls = 0usize;
    let max_polls = 4 * (input.len() + script.events.len()) + 4 * max_items + 64;
    let mut exec_error = None;
    let mut errors_seen = 0usize;
    let mut nones = 0usize;

    // The source is shared through a cell so that counters can be read afterwards.
    struct Shared(std::rc::Rc<std::cell::RefCell<SimAsyncRead>>);
    impl futures::AsyncRead for Shared {
        fn poll_read(self: std::pin::Pin<&mut Self>, cx: &mut std::task::Context<'_>, buf: &mut [u8]) -> std::task::Poll<std::io::Result<usize>> {
            let mut g = self.0.borrow_mut();
            std::pin::Pin::new(&mut *g).poll_read(cx, buf)
        }
    }
    let src = std::rc::Rc::new(std::cell::RefCell::new(SimAsyncRead::new(input.clone(), script.clone(), deferred.clone())));

    let outcome = guarded((|| {
        if use_stream {
            let it: TagIteratorAsync<Shared, T> = TagIteratorAsync::new(Shared(src.clone()), &bufd);
            let mut st = Box::pin(it.into_stream());
            loop {
                let mut fut = Box::pin(st.next());
                match crate::io::block_on(fut.as_mut(), &deferred, max_polls, &mut polls) {
                    Ok(Some(Ok(t))) => evs.push(Ev::Tag(to_tagv::<T>(&t), usize::MAX)),
                    Ok(Some(Err(e))) => {
                        evs.push(Ev::Err(conv_err(&e)));
                        // the caller may go on after an error (a bounded number of further calls)
                        if errors_seen >= after_error {
                            break;
                        }
                        errors_seen += 1;
                    }
                    Ok(None) => {
                        evs.push(Ev::None);
                        break;
                    }
                    Err(ExecError::LostWake) => {
                        exec_error = Some("lost wake-up".to_string());
                        break;
                    }
                    Err(ExecError::PollBudget) => {
                        exec_error = Some("poll budget exceeded".to_string());
                        break;
                    }
                }
                if evs.len() >= max_items {
                    exec_error = Some("item budget exceeded".to_string());
                    break;
                }
            }
        } else {
            let mut it: TagIteratorAsync<Shared, T> = TagIteratorAsync::new(Shared(src.clone()), &bufd);
            loop {
                let r = {
                    let mut fut = Box::pin(it.next());
                    crate::io::block_on(fut.as_mut(), &deferred, max_polls, &mut polls)
                };
                match r {
                    Ok(Some(Ok(t))) => evs.push(Ev::Tag(to_tagv::<T>(&t), it.last_emitted_tag_offset())),
                    Ok(Some(Err(e))) => {
                        evs.push(Ev::Err(conv_err(&e)));
                        // the caller may go on after an error (a bounded number of further calls)
                        if errors_seen >= after_error {
                            break;
                        }
                        errors_seen += 1;
                    }
                    Ok(None) => {
                        evs.push(Ev::None);
                        // "ending once": a caller that asks again after the end (twice) must get None again
                        nones += 1;
                        if nones > 2 {
                            break;
                        }
                    }
                    Err(ExecError::LostWake) => {
                        exec_error = Some("lost wake-up".to_string());
                        break;
                    }
                    Err(ExecError::PollBudget) => {
                        exec_error = Some("poll budget exceeded".to_string());
                        break;
                    }
                }
                if evs.len() >= max_items {
                    exec_error = Some("item budget exceeded".to_string());
                    break;
                }
            }
        }
    }));
    if let Err(p) = outcome {
        evs.push(Ev::Panic(panic_msg(p)));
    }
    let s = src.borrow();
    ATrace { evs, exec_error, polls, reads: s.reads, pendings: s.pendings, end_reads: s.end_reads, split_sizes: s.split_sizes.clone(), failures: s.failures.clone() }
}

pub fn run_async(spec: &SpecTable, input: &Arc<Vec<u8>>, buffered: &[u64], script: &AScript, use_stream: bool, max_items: usize, after_error: usize) -> ATrace {
    match spec.kind {
        SpecKind::Dyn => {
            crate::spec::install(spec);
            run_async_t::<DTag>(input, buffered, script, use_stream, max_items, after_error)
        }
        SpecKind::Static => run_async_t::<StaticSpec>(input, buffered, script, use_stream, max_items, after_error),
        SpecKind::Static2 => run_async_t::<StaticSpec2>(input, buffered, script, use_stream, max_items, after_error),
    }
}
