//! Neutral value types shared by every harness and oracle: tags, iterator errors, writer errors.
//! They are independent of the specification type in use, comparable (floats by bit pattern) and
//! serialisable to the replay-file JSON.

use serde_json::{json, Value as J};

#[derive(Clone, Debug, PartialEq, Eq)]
pub enum Val {
    U(u64),
    I(i64),
    /// f64 bit pattern
    F(u64),
    S(String),
    B(Vec<u8>),
    Start,
    End,
    Full(Vec<TagV>),
    /// payload of a tag whose id is not in the specification
    Raw(Vec<u8>),
}

#[derive(Clone, Debug, PartialEq, Eq)]
pub struct TagV {
    pub id: u64,
    pub val: Val,
}

impl TagV {
    pub fn new(id: u64, val: Val) -> Self {
        TagV { id, val }
    }
    pub fn is_start(&self) -> bool {
        matches!(self.val, Val::Start)
    }
    pub fn is_end(&self) -> bool {
        matches!(self.val, Val::End)
    }
    pub fn is_full(&self) -> bool {
        matches!(self.val, Val::Full(_))
    }
    pub fn is_master(&self) -> bool {
        matches!(self.val, Val::Start | Val::End | Val::Full(_))
    }
    /// Start, children (recursively flattened), End for a Full; the tag itself otherwise.
    pub fn flatten_into(&self, out: &mut Vec<TagV>) {
        match &self.val {
            Val::Full(cs) => {
                out.push(TagV::new(self.id, Val::Start));
                for c in cs {
                    c.flatten_into(out);
                }
                out.push(TagV::new(self.id, Val::End));
            }
            _ => out.push(self.clone()),
        }
    }
    pub fn short(&self) -> String {
        match &self.val {
            Val::U(v) => format!("{:x}=u{}", self.id, v),
            Val::I(v) => format!("{:x}=i{}", self.id, v),
            Val::F(v) => format!("{:x}=f{:016x}", self.id, v),
            Val::S(v) => format!("{:x}=s[{}]", self.id, v.len()),
            Val::B(v) => format!("{:x}=b[{}]", self.id, v.len()),
            Val::Raw(v) => format!("{:x}=raw[{}]", self.id, v.len()),
            Val::Start => format!("{:x}<", self.id),
            Val::End => format!("{:x}>", self.id),
            Val::Full(cs) => format!("{:x}{{{}}}", self.id, cs.iter().map(|c| c.short()).collect::<Vec<_>>().join(",")),
        }
    }
}

pub fn flatten(tags: &[TagV]) -> Vec<TagV> {
    let mut out = Vec::new();
    for t in tags {
        t.flatten_into(&mut out);
    }
    out
}

pub fn hex(b: &[u8]) -> String {
    let mut s = String::with_capacity(b.len() * 2);
    for x in b {
        s.push_str(&format!("{:02x}", x));
    }
    s
}

pub fn unhex(s: &str) -> Result<Vec<u8>, String> {
    if s.len() % 2 != 0 {
        return Err("odd hex length".into());
    }
    let b = s.as_bytes();
    let mut out = Vec::with_capacity(s.len() / 2);
    for i in (0..b.len()).step_by(2) {
        let h = (b[i] as char).to_digit(16).ok_or("bad hex")?;
        let l = (b[i + 1] as char).to_digit(16).ok_or("bad hex")?;
        out.push((h * 16 + l) as u8);
    }
    Ok(out)
}

/// Long byte strings are written run-length compressed when they are one repeated byte, so
/// that replay files with megabyte payloads stay readable.
pub fn bytes_to_j(b: &[u8]) -> J {
    if b.len() > 64 && b.iter().all(|x| *x == b[0]) {
        json!({"rep": b[0], "n": b.len()})
    } else {
        J::String(hex(b))
    }
}

pub fn bytes_from_j(j: &J) -> Result<Vec<u8>, String> {
    match j {
        J::String(s) => unhex(s),
        J::Object(o) => {
            let b = o.get("rep").and_then(|v| v.as_u64()).ok_or("rep")? as u8;
            let n = o.get("n").and_then(|v| v.as_u64()).ok_or("n")? as usize;
            Ok(vec![b; n])
        }
        _ => Err("bytes: expected string or {rep,n}".into()),
    }
}

impl TagV {
    pub fn to_j(&self) -> J {
        let (k, v) = match &self.val {
            Val::U(v) => ("u", json!(v)),
            Val::I(v) => ("i", json!(v)),
            Val::F(v) => ("f", json!(format!("{:016x}", v))),
            Val::S(v) => ("s", bytes_to_j(v.as_bytes())),
            Val::B(v) => ("b", bytes_to_j(v)),
            Val::Raw(v) => ("raw", bytes_to_j(v)),
            Val::Start => ("m", json!("start")),
            Val::End => ("m", json!("end")),
            Val::Full(cs) => ("full", J::Array(cs.iter().map(|c| c.to_j()).collect())),
        };
        json!({"id": format!("{:x}", self.id), k: v})
    }

    pub fn from_j(j: &J) -> Result<TagV, String> {
        let o = j.as_object().ok_or("tag: object expected")?;
        let id = u64::from_str_radix(o.get("id").and_then(|v| v.as_str()).ok_or("tag.id")?, 16).map_err(|e| e.to_string())?;
        let val = if let Some(v) = o.get("u") {
            Val::U(v.as_u64().ok_or("u")?)
        } else if let Some(v) = o.get("i") {
            Val::I(v.as_i64().ok_or("i")?)
        } else if let Some(v) = o.get("f") {
            Val::F(u64::from_str_radix(v.as_str().ok_or("f")?, 16).map_err(|e| e.to_string())?)
        } else if let Some(v) = o.get("s") {
            Val::S(String::from_utf8(bytes_from_j(v)?).map_err(|e| e.to_string())?)
        } else if let Some(v) = o.get("b") {
            Val::B(bytes_from_j(v)?)
        } else if let Some(v) = o.get("raw") {
            Val::Raw(bytes_from_j(v)?)
        } else if let Some(v) = o.get("m") {
            match v.as_str() {
                Some("start") => Val::Start,
                Some("end") => Val::End,
                _ => return Err("m".into()),
            }
        } else if let Some(v) = o.get("full") {
            Val::Full(v.as_array().ok_or("full")?.iter().map(TagV::from_j).collect::<Result<_, _>>()?)
        } else {
            return Err("tag: no value key".into());
        };
        Ok(TagV { id, val })
    }
}

/// Iterator errors, field by field.
#[derive(Clone, Debug, PartialEq, Eq)]
pub enum ErrV {
    InvalidTagId { pos: usize, id: u64 },
    InvalidTagData { pos: usize, id: u64 },
    Hierarchy { found: u64, parent: Option<u64> },
    OversizedChild { pos: usize, id: u64, size: usize },
    InvalidTagSize { pos: usize, id: u64, size: usize },
    Eof { start: usize, id: Option<u64>, size: Option<usize>, partial: Option<Vec<u8>> },
    TagData { id: u64, problem: String },
    /// io::ErrorKind (Debug text) and the token the simulator put into the error (0 = not ours)
    Read { kind: String, token: u64 },
}

impl ErrV {
    pub fn kind(&self) -> &'static str {
        match self {
            ErrV::InvalidTagId { .. } => "InvalidTagId",
            ErrV::InvalidTagData { .. } => "InvalidTagData",
            ErrV::Hierarchy { .. } => "HierarchyError",
            ErrV::OversizedChild { .. } => "OversizedChildElement",
            ErrV::InvalidTagSize { .. } => "InvalidTagSize",
            ErrV::Eof { .. } => "UnexpectedEOF",
            ErrV::TagData { .. } => "CorruptedTagData",
            ErrV::Read { .. } => "ReadError",
        }
    }
    pub fn is_corruption(&self) -> bool {
        !matches!(self, ErrV::Eof { .. } | ErrV::Read { .. })
    }
    pub fn short(&self) -> String {
        match self {
            ErrV::Eof { start, id, size, partial } => format!(
                "UnexpectedEOF{{start:{},id:{:x?},size:{:?},partial:{:?}}}",
                start,
                id,
                size,
                partial.as_ref().map(|p| if p.len() > 16 { format!("[{} bytes]", p.len()) } else { hex(p) })
            ),
            other => format!("{:x?}", other),
        }
    }
}

/// Writer errors.
#[derive(Clone, Debug, PartialEq, Eq)]
pub enum WErrV {
    UnexpectedTag { id: u64, path: Vec<u64> },
    TagId(u64),
    TagSize(String),
    UnexpectedClosing { id: u64, expected: Option<u64> },
    Write { kind: String, token: u64 },
}

impl WErrV {
    pub fn kind(&self) -> &'static str {
        match self {
            WErrV::UnexpectedTag { .. } => "UnexpectedTag",
            WErrV::TagId(_) => "TagIdError",
            WErrV::TagSize(_) => "TagSizeError",
            WErrV::UnexpectedClosing { .. } => "UnexpectedClosingTag",
            WErrV::Write { .. } => "WriteError",
        }
    }
}
