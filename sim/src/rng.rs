//! The only source of randomness in the simulator: xoshiro256** seeded through splitmix64.
//! One integer (VERIF_SEED) → per-run seeds via `mix` → every choice of a run.

#[derive(Clone)]
pub struct Rng {
    s: [u64; 4],
}

fn splitmix(x: &mut u64) -> u64 {
    *x = x.wrapping_add(0x9E3779B97F4A7C15);
    let mut z = *x;
    z = (z ^ (z >> 30)).wrapping_mul(0xBF58476D1CE4E5B9);
    z = (z ^ (z >> 27)).wrapping_mul(0x94D049BB133111EB);
    z ^ (z >> 31)
}

/// Mixes three integers into one seed (base seed, check number, run index).
pub fn mix(a: u64, b: u64, c: u64) -> u64 {
    let mut x = a ^ 0x51_7C_C1_B7_27_22_0A_95;
    let mut r = splitmix(&mut x);
    x ^= b.wrapping_mul(0xD6E8FEB86659FD93);
    r ^= splitmix(&mut x);
    x ^= c.wrapping_mul(0xA0761D6478BD642F);
    r ^= splitmix(&mut x);
    r ^ splitmix(&mut x)
}

impl Rng {
    pub fn new(seed: u64) -> Self {
        let mut x = seed;
        let s = [splitmix(&mut x), splitmix(&mut x), splitmix(&mut x), splitmix(&mut x)];
        Rng { s }
    }

    pub fn next(&mut self) -> u64 {
        let result = self.s[1].wrapping_mul(5).rotate_left(7).wrapping_mul(9);
        let t = self.s[1] << 17;
        self.s[2] ^= self.s[0];
        self.s[3] ^= self.s[1];
        self.s[1] ^= self.s[2];
        self.s[0] ^= self.s[3];
        self.s[2] ^= t;
        self.s[3] = self.s[3].rotate_left(45);
        result
    }

    /// Uniform in 0..n (n > 0).
    pub fn below(&mut self, n: u64) -> u64 {
        debug_assert!(n > 0);
        ((self.next() as u128 * n as u128) >> 64) as u64
    }

    /// Uniform in lo..=hi.
    pub fn range(&mut self, lo: usize, hi: usize) -> usize {
        debug_assert!(lo <= hi);
        lo + self.below((hi - lo) as u64 + 1) as usize
    }

    pub fn chance(&mut self, num: u64, den: u64) -> bool {
        self.below(den) < num
    }

    pub fn pick<'a, T>(&mut self, xs: &'a [T]) -> &'a T {
        &xs[self.below(xs.len() as u64) as usize]
    }

    pub fn bytes(&mut self, n: usize) -> Vec<u8> {
        let mut v = Vec::with_capacity(n);
        while v.len() < n {
            let x = self.next().to_le_bytes();
            let take = (n - v.len()).min(8);
            v.extend_from_slice(&x[..take]);
        }
        v
    }

    /// A fresh generator whose stream is independent of what is drawn from `self` afterwards.
    pub fn fork(&mut self) -> Rng {
        Rng::new(self.next())
    }
}
