//! Writer-side case descriptions: presentations of a document tree as writer calls, call-history
//! shrinking, and the reference view of a call history (which masters are open, what was written).

use serde_json::{json, Value as J};

use crate::enc::{Body, Node};
use crate::harness::{Opt, WOp};
use crate::rng::Rng;
use crate::val::{TagV, Val};

#[derive(Clone, Debug)]
pub struct PresentOpts {
    /// percent of masters collapsed into one Full item
    pub full_pct: u64,
    /// use the deprecated write_unknown_size call for some unknown-size masters
    pub deprecated_pct: u64,
    /// raw elements through write_raw instead of write(RawTag)
    pub write_raw_pct: u64,
}

impl Default for PresentOpts {
    fn default() -> Self {
        PresentOpts { full_pct: 25, deprecated_pct: 30, write_raw_pct: 50 }
    }
}

fn opt_of(n: &Node) -> Opt {
    if n.enc.unknown {
        Opt::Unknown
    } else if n.enc.size_w != 0 {
        Opt::Width(n.enc.size_w)
    } else {
        Opt::Default
    }
}

fn subtree_default_enc(n: &Node) -> bool {
    n.children().iter().all(|c| c.enc.size_w == 0 && !c.enc.unknown && subtree_default_enc(c))
}

/// Turns a document into writer calls. A master whose descendants all use default encoding may
/// be collapsed into one Full item; its own width option is kept.
pub fn present(rng: &mut Rng, doc: &[Node], o: &PresentOpts, out: &mut Vec<WOp>) {
    for n in doc {
        match &n.body {
            Body::Leaf(Val::Raw(b)) => {
                if n.enc.size_w == 0 && rng.below(100) < o.write_raw_pct {
                    out.push(WOp::WriteRaw(n.id, b.clone()));
                } else {
                    out.push(WOp::Write(TagV::new(n.id, Val::Raw(b.clone())), opt_of(n)));
                }
            }
            Body::Leaf(v) => out.push(WOp::Write(TagV::new(n.id, v.clone()), opt_of(n))),
            Body::Master(cs) => {
                if !n.enc.unknown && subtree_default_enc(n) && rng.below(100) < o.full_pct {
                    out.push(WOp::Write(n.to_full(), opt_of(n)));
                } else {
                    if n.enc.unknown && n.enc.size_w == 0 && rng.below(100) < o.deprecated_pct {
                        out.push(WOp::WriteUnknownDeprecated(TagV::new(n.id, Val::Start)));
                    } else {
                        out.push(WOp::Write(TagV::new(n.id, Val::Start), opt_of(n)));
                    }
                    present(rng, cs, o, out);
                    out.push(WOp::Write(TagV::new(n.id, Val::End), Opt::Default));
                }
            }
        }
    }
}

/// The flattened tag sequence a call history writes (assuming every call is accepted).
pub fn written_tags(ops: &[WOp]) -> Vec<TagV> {
    let mut out = Vec::new();
    for op in ops {
        match op {
            WOp::Write(t, _) => t.flatten_into(&mut out),
            WOp::WriteUnknownDeprecated(t) => out.push(TagV::new(t.id, Val::Start)),
            WOp::WriteRaw(id, b) => out.push(TagV::new(*id, Val::Raw(b.clone()))),
            WOp::Flush => {}
        }
    }
    out
}

/// Reference view of the writer's open-master stack after a prefix of accepted calls.
#[derive(Clone, Debug, PartialEq, Eq)]
pub struct OpenM {
    pub id: u64,
    pub known: bool,
}

pub fn open_after(ops: &[WOp]) -> Vec<OpenM> {
    let mut st: Vec<OpenM> = Vec::new();
    for op in ops {
        match op {
            WOp::Write(t, o) => match &t.val {
                Val::Start => st.push(OpenM { id: t.id, known: !matches!(o, Opt::Unknown) }),
                Val::End => {
                    st.pop();
                }
                _ => {}
            },
            WOp::WriteUnknownDeprecated(t) => st.push(OpenM { id: t.id, known: false }),
            WOp::WriteRaw(..) => {}
            WOp::Flush => st.clear(),
        }
    }
    st
}

pub fn ops_to_j(ops: &[WOp]) -> J {
    J::Array(ops.iter().map(|o| o.to_j()).collect())
}

pub fn ops_from_j(j: &J) -> Result<Vec<WOp>, String> {
    j.as_array().ok_or("ops")?.iter().map(WOp::from_j).collect()
}

fn shrink_tag(t: &TagV) -> Vec<TagV> {
    let mut v = Vec::new();
    match &t.val {
        Val::U(x) if *x != 0 => v.push(TagV::new(t.id, Val::U(0))),
        Val::I(x) if *x != 0 => v.push(TagV::new(t.id, Val::I(0))),
        Val::F(x) if *x != 0 => v.push(TagV::new(t.id, Val::F(0))),
        Val::S(s) if !s.is_empty() => {
            v.push(TagV::new(t.id, Val::S(String::new())));
            v.push(TagV::new(t.id, Val::S("a".repeat(s.len() / 2))));
            v.push(TagV::new(t.id, Val::S("a".repeat(s.len() - 1))));
        }
        Val::B(b) if !b.is_empty() => {
            v.push(TagV::new(t.id, Val::B(vec![])));
            v.push(TagV::new(t.id, Val::B(vec![0; b.len() / 2])));
            v.push(TagV::new(t.id, Val::B(vec![0; b.len() - 1])));
        }
        Val::Raw(b) if !b.is_empty() => {
            v.push(TagV::new(t.id, Val::Raw(vec![])));
            v.push(TagV::new(t.id, Val::Raw(vec![0; b.len() / 2])));
        }
        Val::Full(cs) => {
            for i in 0..cs.len() {
                let mut c2 = cs.clone();
                c2.remove(i);
                v.push(TagV::new(t.id, Val::Full(c2)));
            }
            for i in 0..cs.len() {
                for s in shrink_tag(&cs[i]) {
                    let mut c2 = cs.clone();
                    c2[i] = s;
                    v.push(TagV::new(t.id, Val::Full(c2)));
                }
            }
        }
        _ => {}
    }
    v
}

/// Simpler call histories: matched Start…End ranges and single calls removed, payloads shrunk,
/// options reset.
pub fn shrink_ops(ops: &[WOp]) -> Vec<Vec<WOp>> {
    let mut out: Vec<Vec<WOp>> = Vec::new();
    // matched ranges
    let mut stack: Vec<usize> = Vec::new();
    let mut ranges: Vec<(usize, usize)> = Vec::new();
    for (i, op) in ops.iter().enumerate() {
        match op {
            WOp::Write(t, _) if t.is_start() => stack.push(i),
            WOp::WriteUnknownDeprecated(_) => stack.push(i),
            WOp::Write(t, _) if t.is_end() => {
                if let Some(s) = stack.pop() {
                    ranges.push((s, i));
                }
            }
            _ => {}
        }
    }
    ranges.sort_by_key(|(a, b)| std::cmp::Reverse(b - a));
    for (a, b) in &ranges {
        let mut v = ops.to_vec();
        v.drain(*a..=*b);
        out.push(v);
    }
    // drop a tail
    if ops.len() > 1 {
        out.push(ops[..ops.len() / 2].to_vec());
        out.push(ops[..ops.len() - 1].to_vec());
    }
    for (i, op) in ops.iter().enumerate() {
        let removable = match op {
            WOp::Write(t, _) => !t.is_start() && !t.is_end(),
            WOp::WriteUnknownDeprecated(_) => false,
            _ => true,
        };
        if removable {
            let mut v = ops.to_vec();
            v.remove(i);
            out.push(v);
        }
    }
    for (i, op) in ops.iter().enumerate() {
        match op {
            WOp::Write(t, o) => {
                if *o != Opt::Default {
                    let mut v = ops.to_vec();
                    v[i] = WOp::Write(t.clone(), Opt::Default);
                    out.push(v);
                }
                for s in shrink_tag(t) {
                    let mut v = ops.to_vec();
                    v[i] = WOp::Write(s, o.clone());
                    out.push(v);
                }
            }
            WOp::WriteUnknownDeprecated(t) => {
                let mut v = ops.to_vec();
                v[i] = WOp::Write(t.clone(), Opt::Unknown);
                out.push(v);
            }
            WOp::WriteRaw(id, b) if !b.is_empty() => {
                let mut v = ops.to_vec();
                v[i] = WOp::WriteRaw(*id, vec![0; b.len() / 2]);
                out.push(v);
            }
            _ => {}
        }
    }
    out
}

pub fn fp_ops(f: &mut crate::runner::Fp, ops: &[WOp]) {
    for op in ops {
        f.s(&op.short());
        if let WOp::Write(t, _) = op {
            fp_tag(f, t);
        }
        if let WOp::WriteRaw(_, b) = op {
            f.bytes(b);
        }
    }
}

fn fp_tag(f: &mut crate::runner::Fp, t: &TagV) {
    f.u(t.id);
    match &t.val {
        Val::U(x) => {
            f.u(*x);
        }
        Val::I(x) => {
            f.u(*x as u64);
        }
        Val::F(x) => {
            f.u(*x);
        }
        Val::S(s) => {
            f.s(s);
        }
        Val::B(b) | Val::Raw(b) => {
            f.bytes(b);
        }
        Val::Full(cs) => {
            for c in cs {
                fp_tag(f, c);
            }
        }
        _ => {}
    }
}

pub fn _j(_: &J) -> J {
    json!(null)
}

/// The properties' own exclusion, on call histories: an element whose declared path has a
/// placeholder (or whose id is outside the specification) written directly after the End of an
/// unknown-size master — a reader cannot tell whether it is inside or after that master.
pub fn ambiguous_history(spec: &crate::spec::SpecTable, ops: &[WOp]) -> bool {
    // Full masters count as one element (known-size, self-contained); their inside is judged like a document
    fn full_inside_ambiguous(spec: &crate::spec::SpecTable, t: &TagV) -> bool {
        if let Val::Full(cs) = &t.val {
            let mut ops: Vec<WOp> = Vec::new();
            for c in cs {
                ops.push(WOp::Write(c.clone(), Opt::Default));
            }
            return ambiguous_history(spec, &ops);
        }
        false
    }
    // (id, unknown-size) of open masters
    let mut stack: Vec<(u64, bool)> = Vec::new();
    // the unknown-size master whose End was the previous call
    let mut just_closed: Option<u64> = None;
    // something written now: does it land in the ambiguous zone?
    let lands_badly = |stack: &Vec<(u64, bool)>, just_closed: Option<u64>, id: u64| -> bool {
        if let Some(n) = just_closed {
            // only something that ends N can follow N; a master with a placeholder path stays last - unless what follows is
            // a root element, which ends every unknown-size master whatever its path
            let follower_is_root = spec.get(id).map_or(false, |d| d.path.is_empty());
            if (spec.get(n).map_or(true, |d| d.has_global()) && !follower_is_root) || !crate::refdec::ends_master(spec, n, id) {
                return true;
            }
        }
        // nothing that by itself ends a master of the trailing unknown-size run it is written into
        let rs = stack.iter().rposition(|x| !x.1).map_or(0, |i| i + 1);
        (rs..stack.len()).any(|i| crate::refdec::ends_master(spec, stack[i].0, id))
    };
    for op in ops {
        match op {
            WOp::Write(t, o) => match &t.val {
                Val::Start => {
                    if lands_badly(&stack, just_closed, t.id) {
                        return true;
                    }
                    just_closed = None;
                    stack.push((t.id, matches!(o, Opt::Unknown)));
                }
                Val::End => {
                    let (id, unk) = stack.pop().unwrap_or((t.id, false));
                    just_closed = if unk { Some(id) } else { None };
                }
                _ => {
                    if lands_badly(&stack, just_closed, t.id) || full_inside_ambiguous(spec, t) {
                        return true;
                    }
                    just_closed = None;
                }
            },
            WOp::WriteUnknownDeprecated(t) => {
                if lands_badly(&stack, just_closed, t.id) {
                    return true;
                }
                just_closed = None;
                stack.push((t.id, true));
            }
            WOp::WriteRaw(id, _) => {
                if lands_badly(&stack, just_closed, *id) {
                    return true;
                }
                just_closed = None;
            }
            WOp::Flush => {}
        }
    }
    false
}

/// Tags written by `ops` plus the Ends that end of input implies for masters still open.
pub fn expected_with_eof_ends(ops: &[WOp]) -> Vec<TagV> {
    let mut t = written_tags(ops);
    let mut open: Vec<u64> = Vec::new();
    for x in &t {
        if x.is_start() {
            open.push(x.id);
        } else if x.is_end() {
            open.pop();
        }
    }
    while let Some(id) = open.pop() {
        t.push(TagV::new(id, Val::End));
    }
    t
}


pub fn describe(ops: &[WOp]) -> String {
    ops.iter().map(|o| o.short()).collect::<Vec<_>>().join(" ")
}
