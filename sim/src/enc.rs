//! Document trees and the independent reference encoder (RFC 8794), which yields bytes *and a
//! layout* — the ground truth for cut points, boundaries, offsets and fault placement.

use serde_json::{json, Value as J};

use crate::val::{TagV, Val};

/// Per-element encoding choices.
#[derive(Clone, Debug, PartialEq, Eq, Default)]
pub struct Enc {
    /// size-field width 1..=8, 0 = shortest that is not the reserved all-ones pattern
    pub size_w: u8,
    /// masters only: unknown-size encoding (size field = all ones of width `size_w`, 0 → 8 as the writer does)
    pub unknown: bool,
    /// integers: payload padded to this many bytes (sign/zero extended); floats: 4 = f32 encoding
    pub pay_len: Option<u8>,
}

#[derive(Clone, Debug, PartialEq, Eq)]
pub enum Body {
    /// U, I, F, S, B or Raw
    Leaf(Val),
    Master(Vec<Node>),
}

#[derive(Clone, Debug, PartialEq, Eq)]
pub struct Node {
    pub id: u64,
    pub body: Body,
    pub enc: Enc,
}

impl Node {
    pub fn leaf(id: u64, v: Val) -> Node {
        Node { id, body: Body::Leaf(v), enc: Enc::default() }
    }
    pub fn master(id: u64, cs: Vec<Node>) -> Node {
        Node { id, body: Body::Master(cs), enc: Enc::default() }
    }
    pub fn is_master(&self) -> bool {
        matches!(self.body, Body::Master(_))
    }
    pub fn children(&self) -> &[Node] {
        match &self.body {
            Body::Master(cs) => cs,
            _ => &[],
        }
    }
    pub fn count(&self) -> usize {
        1 + self.children().iter().map(|c| c.count()).sum::<usize>()
    }
    pub fn count_masters(&self) -> usize {
        (self.is_master() as usize) + self.children().iter().map(|c| c.count_masters()).sum::<usize>()
    }
    /// Start, children…, End / the leaf
    pub fn flatten_into(&self, out: &mut Vec<TagV>) {
        match &self.body {
            Body::Leaf(v) => out.push(TagV::new(self.id, v.clone())),
            Body::Master(cs) => {
                out.push(TagV::new(self.id, Val::Start));
                for c in cs {
                    c.flatten_into(out);
                }
                out.push(TagV::new(self.id, Val::End));
            }
        }
    }
    pub fn to_full(&self) -> TagV {
        match &self.body {
            Body::Leaf(v) => TagV::new(self.id, v.clone()),
            Body::Master(cs) => TagV::new(self.id, Val::Full(cs.iter().map(|c| c.to_full()).collect())),
        }
    }
    pub fn visit_mut(&mut self, f: &mut dyn FnMut(&mut Node)) {
        f(self);
        if let Body::Master(cs) = &mut self.body {
            for c in cs {
                c.visit_mut(f);
            }
        }
    }
    pub fn visit(&self, f: &mut dyn FnMut(&Node, usize), depth: usize) {
        f(self, depth);
        for c in self.children() {
            c.visit(f, depth + 1);
        }
    }

    pub fn to_j(&self) -> J {
        let mut o = serde_json::Map::new();
        o.insert("id".into(), json!(format!("{:x}", self.id)));
        match &self.body {
            Body::Leaf(v) => {
                let t = TagV::new(self.id, v.clone()).to_j();
                for (k, v) in t.as_object().unwrap() {
                    if k != "id" {
                        o.insert(k.clone(), v.clone());
                    }
                }
            }
            Body::Master(cs) => {
                o.insert("children".into(), J::Array(cs.iter().map(|c| c.to_j()).collect()));
            }
        }
        if self.enc.size_w != 0 {
            o.insert("size_w".into(), json!(self.enc.size_w));
        }
        if self.enc.unknown {
            o.insert("unknown".into(), json!(true));
        }
        if let Some(p) = self.enc.pay_len {
            o.insert("pay_len".into(), json!(p));
        }
        J::Object(o)
    }

    pub fn from_j(j: &J) -> Result<Node, String> {
        let o = j.as_object().ok_or("node")?;
        let id = u64::from_str_radix(o.get("id").and_then(|v| v.as_str()).ok_or("node.id")?, 16).map_err(|e| e.to_string())?;
        let enc = Enc {
            size_w: o.get("size_w").and_then(|v| v.as_u64()).unwrap_or(0) as u8,
            unknown: o.get("unknown").and_then(|v| v.as_bool()).unwrap_or(false),
            pay_len: o.get("pay_len").and_then(|v| v.as_u64()).map(|v| v as u8),
        };
        let body = if let Some(cs) = o.get("children") {
            Body::Master(cs.as_array().ok_or("children")?.iter().map(Node::from_j).collect::<Result<_, _>>()?)
        } else {
            Body::Leaf(TagV::from_j(j)?.val)
        };
        Ok(Node { id, body, enc })
    }
}

pub fn flatten_doc(doc: &[Node]) -> Vec<TagV> {
    let mut out = Vec::new();
    for n in doc {
        n.flatten_into(&mut out);
    }
    out
}

pub fn doc_to_j(doc: &[Node]) -> J {
    J::Array(doc.iter().map(|n| n.to_j()).collect())
}

pub fn doc_from_j(j: &J) -> Result<Vec<Node>, String> {
    j.as_array().ok_or("doc")?.iter().map(Node::from_j).collect()
}

// ---------------------------------------------------------------------------------------------
// Primitive encoders (independent of the library's `tools`)
// ---------------------------------------------------------------------------------------------

pub fn id_bytes(id: u64) -> Vec<u8> {
    let b = id.to_be_bytes();
    let skip = b.iter().take_while(|x| **x == 0).count().min(7);
    b[skip..].to_vec()
}

/// Width an id's first byte announces (1..=8), or None for a leading zero byte.
pub fn id_len_from_first(b: u8) -> Option<usize> {
    if b == 0 {
        None
    } else {
        Some(b.leading_zeros() as usize + 1)
    }
}

/// True iff `id`, written big-endian without leading zero bytes, is a vint whose marker matches
/// its length (the library's notion of a well-formed raw id).
pub fn id_well_formed(id: u64) -> bool {
    if id == 0 {
        return false;
    }
    let b = id_bytes(id);
    id_len_from_first(b[0]) == Some(b.len())
}

/// Shortest width whose value range holds `n` without hitting the reserved all-ones pattern.
pub fn min_size_width(n: u64) -> usize {
    for w in 1..=8usize {
        if n < (1u64 << (7 * w)) - 1 {
            return w;
        }
    }
    panic!("size {} not representable", n)
}

pub fn size_vint(n: u64, w: usize) -> Vec<u8> {
    assert!((1..=8).contains(&w));
    assert!(n < (1u64 << (7 * w)), "size {} does not fit width {}", n, w);
    let v = n | (1u64 << (7 * w));
    v.to_be_bytes()[8 - w..].to_vec()
}

pub fn unknown_size(w: usize) -> Vec<u8> {
    size_vint((1u64 << (7 * w)) - 1, w)
}

pub fn min_uint_len(v: u64) -> usize {
    if v <= 0xFF {
        1
    } else if v <= 0xFFFF {
        2
    } else if v <= 0xFFFF_FFFF {
        4
    } else {
        8
    }
}

pub fn min_int_len(v: i64) -> usize {
    if i8::try_from(v).is_ok() {
        1
    } else if i16::try_from(v).is_ok() {
        2
    } else if i32::try_from(v).is_ok() {
        4
    } else {
        8
    }
}

/// Smallest number of big-endian bytes (0..=8) that represents `v` as unsigned.
pub fn tight_uint_len(v: u64) -> usize {
    8 - (v.leading_zeros() as usize) / 8
}

/// Smallest number of two's-complement big-endian bytes (0..=8) that represents `v`.
pub fn tight_int_len(v: i64) -> usize {
    if v == 0 {
        return 0;
    }
    for n in 1..8usize {
        let lo = -(1i64 << (8 * n - 1));
        let hi = (1i64 << (8 * n - 1)) - 1;
        if v >= lo && v <= hi {
            return n;
        }
    }
    8
}

pub fn payload_bytes(v: &Val, pay_len: Option<u8>) -> Vec<u8> {
    match v {
        Val::U(x) => {
            let n = pay_len.map(|p| p as usize).unwrap_or_else(|| min_uint_len(*x));
            assert!(n <= 8 && n >= tight_uint_len(*x), "uint {} in {} bytes", x, n);
            x.to_be_bytes()[8 - n..].to_vec()
        }
        Val::I(x) => {
            let n = pay_len.map(|p| p as usize).unwrap_or_else(|| min_int_len(*x));
            assert!(n <= 8 && n >= tight_int_len(*x), "int {} in {} bytes", x, n);
            x.to_be_bytes()[8 - n..].to_vec()
        }
        Val::F(bits) => {
            if pay_len == Some(4) {
                let f = f64::from_bits(*bits) as f32;
                f.to_be_bytes().to_vec()
            } else {
                bits.to_be_bytes().to_vec()
            }
        }
        Val::S(s) => s.as_bytes().to_vec(),
        Val::B(b) | Val::Raw(b) => b.clone(),
        _ => panic!("payload of a master"),
    }
}

// ---------------------------------------------------------------------------------------------
// Layout
// ---------------------------------------------------------------------------------------------

#[derive(Clone, Debug)]
pub struct Elem {
    pub id: u64,
    /// index into the flattened item sequence of this element's Start / leaf item
    pub item: usize,
    /// index of the End item (masters), == item for leaves
    pub end_item: usize,
    pub off: usize,
    pub id_len: usize,
    pub size_len: usize,
    /// declared size; None = unknown
    pub size: Option<u64>,
    pub is_master: bool,
    /// first byte after the element (for unknown-size masters: after its last descendant)
    pub end: usize,
    pub depth: usize,
    pub parent: Option<usize>,
}

impl Elem {
    pub fn hdr_len(&self) -> usize {
        self.id_len + self.size_len
    }
    pub fn data_start(&self) -> usize {
        self.off + self.hdr_len()
    }
}

#[derive(Clone, Debug, Default)]
pub struct Layout {
    /// elements in document order
    pub elems: Vec<Elem>,
}

impl Layout {
    /// Offsets at which a tag starts, plus the total length (every "tag boundary").
    pub fn boundaries(&self, total: usize) -> Vec<usize> {
        let mut v: Vec<usize> = self.elems.iter().map(|e| e.off).collect();
        v.push(total);
        v.sort();
        v.dedup();
        v
    }
    /// Innermost-last chain of ancestors (element indices) of element `i`.
    pub fn ancestors(&self, i: usize) -> Vec<usize> {
        let mut v = Vec::new();
        let mut p = self.elems[i].parent;
        while let Some(x) = p {
            v.push(x);
            p = self.elems[x].parent;
        }
        v.reverse();
        v
    }
}

pub struct Encoded {
    pub bytes: Vec<u8>,
    pub layout: Layout,
    pub items: Vec<TagV>,
}

fn encode_node(n: &Node, out: &mut Vec<u8>, lay: &mut Layout, items: &mut Vec<TagV>, depth: usize, parent: Option<usize>) {
    let off = out.len();
    let idb = id_bytes(n.id);
    let idx = lay.elems.len();
    match &n.body {
        Body::Leaf(v) => {
            let pay = payload_bytes(v, n.enc.pay_len);
            let w = if n.enc.size_w == 0 { min_size_width(pay.len() as u64) } else { n.enc.size_w as usize };
            out.extend_from_slice(&idb);
            out.extend_from_slice(&size_vint(pay.len() as u64, w));
            out.extend_from_slice(&pay);
            let item = items.len();
            // the value the reader is expected to produce (f32 encodings lose precision by design)
            let v = match (v, n.enc.pay_len) {
                (Val::F(bits), Some(4)) => Val::F(((f64::from_bits(*bits) as f32) as f64).to_bits()),
                _ => v.clone(),
            };
            items.push(TagV::new(n.id, v));
            lay.elems.push(Elem { id: n.id, item, end_item: item, off, id_len: idb.len(), size_len: w, size: Some(pay.len() as u64), is_master: false, end: out.len(), depth, parent });
        }
        Body::Master(cs) => {
            let item = items.len();
            items.push(TagV::new(n.id, Val::Start));
            if n.enc.unknown {
                let w = if n.enc.size_w == 0 { 8 } else { n.enc.size_w as usize };
                out.extend_from_slice(&idb);
                out.extend_from_slice(&unknown_size(w));
                lay.elems.push(Elem { id: n.id, item, end_item: 0, off, id_len: idb.len(), size_len: w, size: None, is_master: true, end: 0, depth, parent });
                for c in cs {
                    encode_node(c, out, lay, items, depth + 1, Some(idx));
                }
                lay.elems[idx].end = out.len();
            } else {
                // encode children into a scratch buffer to learn the size, then shift the layout
                let mut body = Vec::new();
                let mut sub = Layout::default();
                let mut sub_items = Vec::new();
                for c in cs {
                    encode_node(c, &mut body, &mut sub, &mut sub_items, depth + 1, None);
                }
                let w = if n.enc.size_w == 0 { min_size_width(body.len() as u64) } else { n.enc.size_w as usize };
                out.extend_from_slice(&idb);
                out.extend_from_slice(&size_vint(body.len() as u64, w));
                let base = out.len();
                out.extend_from_slice(&body);
                lay.elems.push(Elem { id: n.id, item, end_item: 0, off, id_len: idb.len(), size_len: w, size: Some(body.len() as u64), is_master: true, end: out.len(), depth, parent });
                let shift_idx = idx + 1;
                let shift_item = items.len();
                for mut e in sub.elems {
                    e.off += base;
                    e.end += base;
                    e.item += shift_item;
                    e.end_item += shift_item;
                    e.parent = Some(match e.parent {
                        Some(p) => p + shift_idx,
                        None => idx,
                    });
                    lay.elems.push(e);
                }
                items.extend(sub_items);
            }
            lay.elems[idx].end_item = items.len();
            items.push(TagV::new(n.id, Val::End));
        }
    }
}

/// Can this node be encoded with its `Enc` choices? (explicit widths must hold the sizes)
pub fn encodable(n: &Node) -> bool {
    fn body_len(n: &Node) -> Option<u64> {
        let (hdr_id, content) = (id_bytes(n.id).len() as u64, match &n.body {
            Body::Leaf(v) => payload_bytes(v, n.enc.pay_len).len() as u64,
            Body::Master(cs) => {
                let mut t = 0u64;
                for c in cs {
                    t += body_len(c)?;
                }
                t
            }
        });
        let w = if n.is_master() && n.enc.unknown {
            if n.enc.size_w == 0 { 8 } else { n.enc.size_w as u64 }
        } else if n.enc.size_w == 0 {
            min_size_width(content) as u64
        } else {
            if content >= (1u64 << (7 * n.enc.size_w as u64)) - 1 {
                return None;
            }
            n.enc.size_w as u64
        };
        Some(hdr_id + w + content)
    }
    body_len(n).is_some()
}

pub fn encode(doc: &[Node]) -> Encoded {
    let mut bytes = Vec::new();
    let mut layout = Layout::default();
    let mut items = Vec::new();
    for n in doc {
        encode_node(n, &mut bytes, &mut layout, &mut items, 0, None);
    }
    Encoded { bytes, layout, items }
}

// ---------------------------------------------------------------------------------------------
// Primitive decoders for the reference checker / decoder
// ---------------------------------------------------------------------------------------------

/// Decodes an element id at `b[0..]`: (id with marker, length). None = not enough bytes or a
/// zero first byte.
pub fn dec_id(b: &[u8]) -> Option<(u64, usize)> {
    let l = id_len_from_first(*b.first()?)?;
    if b.len() < l {
        return None;
    }
    let mut v = 0u64;
    for x in &b[..l] {
        v = (v << 8) | *x as u64;
    }
    Some((v, l))
}

/// Decodes a size field: (Some(size) | None for the reserved unknown pattern, length).
pub fn dec_size(b: &[u8]) -> Option<(Option<u64>, usize)> {
    let l = id_len_from_first(*b.first()?)?;
    if b.len() < l {
        return None;
    }
    let mut v = (b[0] as u64) & (0xFFu64 >> l);
    for x in &b[1..l] {
        v = (v << 8) | *x as u64;
    }
    if v == (1u64 << (7 * l)) - 1 {
        Some((None, l))
    } else {
        Some((Some(v), l))
    }
}

pub fn dec_uint(b: &[u8]) -> u64 {
    let mut v = 0u64;
    for x in b {
        v = (v << 8) | *x as u64;
    }
    v
}

pub fn dec_int(b: &[u8]) -> i64 {
    if b.is_empty() {
        return 0;
    }
    let mut v: i64 = if b[0] & 0x80 != 0 { -1 } else { 0 };
    for x in b {
        v = (v << 8) | *x as i64;
    }
    v
}

pub fn dec_float_bits(b: &[u8]) -> Option<u64> {
    match b.len() {
        // RFC 8794 lets a zero-length float stand for 0.0; the library rejects it, and the properties that use this
        // model say nothing either way, so the model is lenient (review R1, C10-3)
        0 => Some(0f64.to_bits()),
        4 => Some((f32::from_be_bytes([b[0], b[1], b[2], b[3]]) as f64).to_bits()),
        8 => Some(u64::from_be_bytes([b[0], b[1], b[2], b[3], b[4], b[5], b[6], b[7]])),
        _ => None,
    }
}
