//! I/O seams: scripted `Read`, `Write` and `AsyncRead` implementations plus a single-threaded
//! executor. They own every byte-delivery decision and log every call.

use std::io::{self, Read, Write};
use std::pin::Pin;
use std::sync::atomic::{AtomicBool, Ordering};
use std::sync::Arc;
use std::task::{Context, Poll, Wake, Waker};

use serde_json::{json, Value as J};

use crate::rng::Rng;

// ---------------------------------------------------------------------------------------------
// Read script
// ---------------------------------------------------------------------------------------------

#[derive(Clone, Debug, PartialEq, Eq)]
pub enum Fault {
    /// `ErrorKind::Interrupted`: callers may retry
    Interrupted,
    /// a hard error of the given kind index (see `FAULT_KINDS`)
    Hard(u8),
}

pub const FAULT_KINDS: [io::ErrorKind; 4] = [io::ErrorKind::Other, io::ErrorKind::ConnectionReset, io::ErrorKind::TimedOut, io::ErrorKind::PermissionDenied];

/// How the source delivers its bytes.
#[derive(Clone, Debug, PartialEq, Eq, Default)]
pub struct RScript {
    /// sizes of successive deliveries; when used up, `rest` applies
    pub chunks: Vec<usize>,
    /// size of every later delivery; 0 = as much as the caller's buffer takes
    pub rest: usize,
    /// stream offsets at which the source reports a temporary end of file (`Ok(0)`) once, after
    /// having delivered exactly the bytes before the offset
    pub pauses: Vec<usize>,
    /// (read-call index, fault): that call fails and transfers nothing
    pub faults: Vec<(usize, Fault)>,
    /// (stream offset, fault): deliveries stop short of the offset, and the first call that would deliver the byte at
    /// it fails once and transfers nothing (a fault tied to a place in the stream, whatever the caller's read pattern)
    pub pos_faults: Vec<(usize, Fault)>,
}

impl RScript {
    pub fn whole() -> Self {
        RScript::default()
    }
    pub fn dribble(k: usize) -> Self {
        RScript { rest: k, ..Default::default() }
    }
    pub fn is_whole(&self) -> bool {
        self.chunks.is_empty() && self.rest == 0 && self.pauses.is_empty() && self.faults.is_empty() && self.pos_faults.is_empty()
    }
    pub fn to_j(&self) -> J {
        json!({
            "chunks": self.chunks,
            "rest": self.rest,
            "pauses": self.pauses,
            "faults": self.faults.iter().map(|(i, f)| match f {
                Fault::Interrupted => json!({"call": i, "interrupted": true}),
                Fault::Hard(k) => json!({"call": i, "hard": k}),
            }).collect::<Vec<_>>(),
            "pos_faults": self.pos_faults.iter().map(|(i, f)| match f {
                Fault::Interrupted => json!({"at": i, "interrupted": true}),
                Fault::Hard(k) => json!({"at": i, "hard": k}),
            }).collect::<Vec<_>>(),
        })
    }
    pub fn from_j(j: &J) -> Result<RScript, String> {
        let arr = |k: &str| -> Result<Vec<usize>, String> { Ok(j.get(k).and_then(|v| v.as_array()).ok_or(format!("rscript.{}", k))?.iter().map(|v| v.as_u64().unwrap_or(0) as usize).collect()) };
        let mut faults = Vec::new();
        for f in j.get("faults").and_then(|v| v.as_array()).ok_or("rscript.faults")? {
            let call = f.get("call").and_then(|v| v.as_u64()).ok_or("fault.call")? as usize;
            if f.get("interrupted").is_some() {
                faults.push((call, Fault::Interrupted));
            } else {
                faults.push((call, Fault::Hard(f.get("hard").and_then(|v| v.as_u64()).ok_or("fault.hard")? as u8)));
            }
        }
        let mut pos_faults = Vec::new();
        for f in j.get("pos_faults").and_then(|v| v.as_array()).map(|a| a.to_vec()).unwrap_or_default() {
            let at = f.get("at").and_then(|v| v.as_u64()).ok_or("pos_fault.at")? as usize;
            if f.get("interrupted").is_some() {
                pos_faults.push((at, Fault::Interrupted));
            } else {
                pos_faults.push((at, Fault::Hard(f.get("hard").and_then(|v| v.as_u64()).ok_or("pos_fault.hard")? as u8)));
            }
        }
        Ok(RScript { chunks: arr("chunks")?, rest: j.get("rest").and_then(|v| v.as_u64()).ok_or("rscript.rest")? as usize, pauses: arr("pauses")?, faults, pos_faults })
    }
}

#[derive(Clone, Debug, PartialEq, Eq)]
pub enum ROut {
    Data(usize),
    /// Ok(0) with bytes remaining
    Pause,
    /// Ok(0), nothing remains
    End,
    Interrupted,
    Hard(u8, u64),
    /// called with an empty buffer
    EmptyBuf,
}

#[derive(Clone, Debug)]
pub struct ReadLog {
    pub buf_len: usize,
    pub pos_before: usize,
    pub out: ROut,
}

/// Scripted source. The bytes are `data` followed by `virtual_tail` filler bytes that exist only
/// on demand (so that a parser that believes a hostile size really can try to read it).
pub struct SimReader {
    pub data: Arc<Vec<u8>>,
    pub virtual_tail: u64,
    pub pos: u64,
    script: RScript,
    chunk_idx: usize,
    pauses_done: Vec<bool>,
    pos_faults_done: Vec<bool>,
    pub calls: usize,
    pub log: Vec<ReadLog>,
    pub keep_log: bool,
    /// calls allowed before the source declares a suspected livelock (reads then fail hard)
    pub call_budget: usize,
    pub budget_exceeded: bool,
    pub ended: bool,
    pub bytes_delivered: u64,
    pub next_token: u64,
    pub stats: ReadStats,
}

#[derive(Clone, Debug, Default)]
pub struct ReadStats {
    pub short_reads: u64,
    pub one_byte_reads: u64,
    pub pauses: u64,
    pub interrupted: u64,
    pub hard: u64,
    pub max_buf_offered: usize,
    pub min_buf_offered: usize,
    /// buffer length offered by the very first read call (the iterator's initial capacity, seen from outside)
    pub first_buf_offered: usize,
}

impl SimReader {
    pub fn new(data: Arc<Vec<u8>>, script: RScript) -> Self {
        let np = script.pauses.len();
        let npf = script.pos_faults.len();
        let total = data.len();
        SimReader {
            data,
            virtual_tail: 0,
            pos: 0,
            script,
            chunk_idx: 0,
            pauses_done: vec![false; np],
            pos_faults_done: vec![false; npf],
            calls: 0,
            log: Vec::new(),
            keep_log: true,
            call_budget: 64 * total + 4096,
            budget_exceeded: false,
            ended: false,
            bytes_delivered: 0,
            next_token: 1,
            stats: ReadStats { min_buf_offered: usize::MAX, ..Default::default() },
        }
    }

    pub fn total(&self) -> u64 {
        self.data.len() as u64 + self.virtual_tail
    }

    pub fn remaining(&self) -> u64 {
        self.total() - self.pos
    }

    fn record(&mut self, buf_len: usize, pos_before: u64, out: ROut) {
        if self.keep_log {
            self.log.push(ReadLog { buf_len, pos_before: pos_before as usize, out });
        }
    }
}

pub fn sim_error(kind: io::ErrorKind, token: u64) -> io::Error {
    io::Error::new(kind, format!("sim-fault#{}", token))
}

/// Token of an error produced by `sim_error` (0 if it is not one of ours).
pub fn error_token(e: &io::Error) -> u64 {
    e.get_ref().map(|inner| inner.to_string()).and_then(|s| s.strip_prefix("sim-fault#").and_then(|t| t.parse().ok())).unwrap_or(0)
}

impl Read for SimReader {
    fn read(&mut self, buf: &mut [u8]) -> io::Result<usize> {
        let call = self.calls;
        self.calls += 1;
        let pos_before = self.pos;
        if call == 0 {
            self.stats.first_buf_offered = buf.len();
        }
        self.stats.max_buf_offered = self.stats.max_buf_offered.max(buf.len());
        self.stats.min_buf_offered = self.stats.min_buf_offered.min(buf.len());
        if self.calls > self.call_budget {
            self.budget_exceeded = true;
            self.record(buf.len(), pos_before, ROut::Hard(255, 0));
            return Err(io::Error::new(io::ErrorKind::Other, "sim: read-call budget exceeded (suspected livelock)"));
        }
        // once the final Ok(0) was returned the source stays exhausted: no faults after the end
        if let Some(f) = self.script.faults.iter().find(|(i, _)| *i == call && !self.ended).map(|(_, f)| f.clone()) {
            match &f {
                Fault::Interrupted => {
                    self.stats.interrupted += 1;
                    self.record(buf.len(), pos_before, ROut::Interrupted);
                    return Err(io::Error::new(io::ErrorKind::Interrupted, "sim: interrupted"));
                }
                Fault::Hard(k) => {
                    let token = self.next_token;
                    self.next_token += 1;
                    self.stats.hard += 1;
                    self.record(buf.len(), pos_before, ROut::Hard(*k, token));
                    return Err(sim_error(FAULT_KINDS[*k as usize % FAULT_KINDS.len()], token));
                }
            }
        }
        if buf.is_empty() {
            self.record(0, pos_before, ROut::EmptyBuf);
            return Ok(0);
        }
        if self.remaining() == 0 {
            self.ended = true;
            self.record(buf.len(), pos_before, ROut::End);
            return Ok(0);
        }
        // a fault tied to a place in the stream
        for i in 0..self.script.pos_faults.len() {
            if self.script.pos_faults[i].0 as u64 == self.pos && !self.pos_faults_done[i] {
                self.pos_faults_done[i] = true;
                match self.script.pos_faults[i].1.clone() {
                    Fault::Interrupted => {
                        self.stats.interrupted += 1;
                        self.record(buf.len(), pos_before, ROut::Interrupted);
                        return Err(io::Error::new(io::ErrorKind::Interrupted, "sim: interrupted"));
                    }
                    Fault::Hard(k) => {
                        let token = self.next_token;
                        self.next_token += 1;
                        self.stats.hard += 1;
                        self.record(buf.len(), pos_before, ROut::Hard(k, token));
                        return Err(sim_error(FAULT_KINDS[k as usize % FAULT_KINDS.len()], token));
                    }
                }
            }
        }
        // temporary EOF at a scripted offset
        for (i, off) in self.script.pauses.iter().enumerate() {
            if *off as u64 == self.pos && !self.pauses_done[i] {
                self.pauses_done[i] = true;
                self.stats.pauses += 1;
                self.record(buf.len(), pos_before, ROut::Pause);
                return Ok(0);
            }
        }
        let want = if self.chunk_idx < self.script.chunks.len() {
            let k = self.script.chunks[self.chunk_idx];
            self.chunk_idx += 1;
            k.max(1)
        } else if self.script.rest == 0 {
            usize::MAX
        } else {
            self.script.rest
        };
        let mut n = (want as u64).min(buf.len() as u64).min(self.remaining());
        // never run past a pending pause offset
        for (i, off) in self.script.pauses.iter().enumerate() {
            if !self.pauses_done[i] && (*off as u64) > self.pos {
                n = n.min(*off as u64 - self.pos);
            }
        }
        for (i, (off, _)) in self.script.pos_faults.iter().enumerate() {
            if !self.pos_faults_done[i] && (*off as u64) > self.pos {
                n = n.min(*off as u64 - self.pos);
            }
        }
        let n = n as usize;
        let real = self.data.len() as u64;
        let mut written = 0usize;
        if self.pos < real {
            let take = ((real - self.pos) as usize).min(n);
            buf[..take].copy_from_slice(&self.data[self.pos as usize..self.pos as usize + take]);
            written = take;
        }
        for b in &mut buf[written..n] {
            *b = 0x00; // virtual filler: as payload it is valid for every type, as a tag it parses to nothing (id 0)
        }
        self.pos += n as u64;
        self.bytes_delivered += n as u64;
        if n < buf.len() && self.remaining() > 0 {
            self.stats.short_reads += 1;
        }
        if n == 1 {
            self.stats.one_byte_reads += 1;
        }
        self.record(buf.len(), pos_before, ROut::Data(n));
        Ok(n)
    }
}

/// Draws a delivery script for an input of `len` bytes. `boundaries` (tag starts) bias splits to
/// land at, one before and one after structurally interesting offsets.
pub fn gen_rscript(rng: &mut Rng, len: usize, boundaries: &[usize]) -> RScript {
    let mut s = RScript::default();
    match rng.below(10) {
        0 => {}
        1 | 2 => s.rest = *rng.pick(&[1usize, 1, 2, 3, 5, 7, 8, 9, 15, 16, 17]),
        3 => {
            // geometric
            let mut k = rng.range(1, 4);
            let mut total = 0;
            while total < len && s.chunks.len() < 64 {
                s.chunks.push(k);
                total += k;
                k = k * 2;
            }
        }
        4 | 5 if !boundaries.is_empty() => {
            // split exactly at / one before / one after a subset of boundaries
            let mut cuts: Vec<usize> = Vec::new();
            for b in boundaries {
                if rng.chance(1, 2) {
                    let d = rng.below(5) as i64 - 2; // -2..=2
                    let c = *b as i64 + d;
                    if c > 0 && (c as usize) < len {
                        cuts.push(c as usize);
                    }
                }
            }
            cuts.sort();
            cuts.dedup();
            let mut prev = 0;
            for c in cuts {
                s.chunks.push(c - prev);
                prev = c;
            }
        }
        _ => {
            // random composition
            let maxk = *rng.pick(&[1usize, 2, 3, 4, 8, 16, 32, 100, 1000]);
            let mut total = 0;
            while total < len && s.chunks.len() < 4096 {
                let k = rng.range(1, maxk);
                s.chunks.push(k);
                total += k;
            }
            s.rest = if rng.chance(1, 2) { 0 } else { rng.range(1, maxk) };
        }
    }
    s
}

pub fn gen_capacity(rng: &mut Rng, len: usize) -> Option<usize> {
    match rng.below(10) {
        0 | 1 | 2 => None,
        3 => Some(rng.range(0, 17)),
        4 => Some(rng.range(0, 3)),
        5 => Some(rng.range(8, 40)),
        6 => Some(len.saturating_sub(rng.range(0, 2)) + rng.range(0, 2)),
        7 => Some(rng.range(16, 300)),
        8 => Some(1usize << rng.range(0, 12)),
        _ => Some(rng.range(0, len + 8)),
    }
}

// ---------------------------------------------------------------------------------------------
// Write seam
// ---------------------------------------------------------------------------------------------

#[derive(Clone, Debug, PartialEq, Eq, Default)]
pub struct WScript {
    /// bytes accepted by successive `write` calls (≥ 1 each); then `rest`
    pub chunks: Vec<usize>,
    /// 0 = accept everything offered
    pub rest: usize,
    /// (write-call index, fault): that call fails and accepts nothing
    pub faults: Vec<(usize, WFault)>,
    /// (flush-call index, error kind index): that `flush` call fails
    pub flush_faults: Vec<(usize, u8)>,
}

#[derive(Clone, Debug, PartialEq, Eq)]
pub enum WFault {
    /// `ErrorKind::Interrupted`: `write_all` retries
    Interrupted,
    /// a hard error of the given kind index (see `FAULT_KINDS`), e.g. a full disk
    Hard(u8),
    /// `Ok(0)` although bytes were offered (a sink that takes no more)
    Zero,
}

impl WScript {
    pub fn to_j(&self) -> J {
        json!({"chunks": self.chunks, "rest": self.rest,
            "faults": self.faults.iter().map(|(i, f)| match f {
                WFault::Interrupted => json!({"call": i, "interrupted": true}),
                WFault::Hard(k) => json!({"call": i, "hard": k}),
                WFault::Zero => json!({"call": i, "zero": true}),
            }).collect::<Vec<_>>(),
            "flush_faults": self.flush_faults.iter().map(|(i, k)| json!([i, k])).collect::<Vec<_>>()})
    }
    pub fn from_j(j: &J) -> Result<WScript, String> {
        Ok(WScript {
            chunks: j.get("chunks").and_then(|v| v.as_array()).ok_or("wscript.chunks")?.iter().map(|v| v.as_u64().unwrap_or(1) as usize).collect(),
            rest: j.get("rest").and_then(|v| v.as_u64()).ok_or("wscript.rest")? as usize,
            faults: j.get("faults").and_then(|v| v.as_array()).map(|a| a.iter().map(|f| {
                let call = f.get("call").and_then(|v| v.as_u64()).unwrap_or(0) as usize;
                if f.get("interrupted").is_some() { (call, WFault::Interrupted) } else if f.get("zero").is_some() { (call, WFault::Zero) } else { (call, WFault::Hard(f.get("hard").and_then(|v| v.as_u64()).unwrap_or(0) as u8)) }
            }).collect()).unwrap_or_default(),
            flush_faults: j.get("flush_faults").and_then(|v| v.as_array()).map(|a| a.iter().map(|f| (f[0].as_u64().unwrap_or(0) as usize, f[1].as_u64().unwrap_or(0) as u8)).collect()).unwrap_or_default(),
        })
    }
}

pub fn gen_wscript(rng: &mut Rng) -> WScript {
    match rng.below(6) {
        0 | 1 => WScript::default(),
        2 => WScript { chunks: vec![], rest: 1, ..Default::default() },
        3 => WScript { chunks: vec![], rest: rng.range(2, 9), ..Default::default() },
        _ => {
            let n = rng.range(1, 40);
            let maxk = *rng.pick(&[1usize, 2, 3, 7, 20, 200]);
            WScript { chunks: (0..n).map(|_| rng.range(1, maxk)).collect(), rest: if rng.chance(1, 2) { 0 } else { rng.range(1, maxk) }, ..Default::default() }
        }
    }
}

/// Scripted sink: accepts a prefix of each offered buffer and remembers everything.
pub struct SimWriter {
    pub out: Vec<u8>,
    script: WScript,
    idx: usize,
    pub write_calls: usize,
    pub partial_writes: usize,
    pub flushes: usize,
    /// length of `out` after each write call: every entry is an instant a consumer could look
    pub snapshots: Vec<usize>,
    /// every injected failure that was actually returned
    pub failures: Vec<WFailure>,
    pub interrupted: usize,
    /// bytes the sink held at each delivered Interrupted
    pub interrupts_at: Vec<usize>,
    taken: bool,
}

#[derive(Clone, Debug)]
pub struct WFailure {
    /// bytes the sink held when the call failed
    pub out_len: usize,
    pub token: u64,
    /// `{:?}` of the error kind the caller should see
    pub kind: String,
    pub in_flush: bool,
}

/// What a sink recorded, detached from the sink itself.
#[derive(Default)]
pub struct SinkState {
    pub out: Vec<u8>,
    pub snapshots: Vec<usize>,
    pub partial_writes: usize,
    pub write_calls: usize,
    pub flushes: usize,
    pub failures: Vec<WFailure>,
    pub interrupted: usize,
    pub interrupts_at: Vec<usize>,
}

thread_local! {
    static DROPPED_SINK: std::cell::RefCell<Option<SinkState>> = const { std::cell::RefCell::new(None) };
}

/// State of the sink most recently dropped on this thread (a writer whose `into_inner()` fails drops its sink).
pub fn take_dropped_sink() -> Option<SinkState> {
    DROPPED_SINK.with(|d| d.borrow_mut().take())
}

impl Drop for SimWriter {
    fn drop(&mut self) {
        if !self.taken {
            let st = self.take_state();
            DROPPED_SINK.with(|d| *d.borrow_mut() = Some(st));
        }
    }
}

impl SimWriter {
    pub fn take_state(&mut self) -> SinkState {
        let st = SinkState { out: std::mem::take(&mut self.out), snapshots: std::mem::take(&mut self.snapshots), partial_writes: self.partial_writes, write_calls: self.write_calls, flushes: self.flushes, failures: std::mem::take(&mut self.failures), interrupted: self.interrupted, interrupts_at: std::mem::take(&mut self.interrupts_at) };
        self.taken = true;
        st
    }
    pub fn new(script: WScript) -> Self {
        SimWriter { out: Vec::new(), script, idx: 0, write_calls: 0, partial_writes: 0, flushes: 0, snapshots: Vec::new(), failures: Vec::new(), interrupted: 0, interrupts_at: Vec::new(), taken: false }
    }
}

impl Write for SimWriter {
    fn write(&mut self, buf: &[u8]) -> io::Result<usize> {
        let call = self.write_calls;
        self.write_calls += 1;
        if buf.is_empty() {
            return Ok(0);
        }
        if let Some(f) = self.script.faults.iter().find(|(i, _)| *i == call).map(|(_, f)| f.clone()) {
            match f {
                WFault::Interrupted => {
                    self.interrupted += 1;
                    self.interrupts_at.push(self.out.len());
                    return Err(io::Error::new(io::ErrorKind::Interrupted, "sim: interrupted"));
                }
                WFault::Hard(k) => {
                    let token = self.failures.len() as u64 + 1;
                    let kind = FAULT_KINDS[k as usize % FAULT_KINDS.len()];
                    self.failures.push(WFailure { out_len: self.out.len(), token, kind: format!("{:?}", kind), in_flush: false });
                    return Err(sim_error(kind, token));
                }
                WFault::Zero => {
                    // `write_all` turns this into its own WriteZero error (no token of ours)
                    self.failures.push(WFailure { out_len: self.out.len(), token: 0, kind: "WriteZero".into(), in_flush: false });
                    return Ok(0);
                }
            }
        }
        let k = if self.idx < self.script.chunks.len() {
            let k = self.script.chunks[self.idx];
            self.idx += 1;
            k.max(1)
        } else if self.script.rest == 0 {
            usize::MAX
        } else {
            self.script.rest
        };
        let n = k.min(buf.len());
        if n < buf.len() {
            self.partial_writes += 1;
        }
        self.out.extend_from_slice(&buf[..n]);
        self.snapshots.push(self.out.len());
        Ok(n)
    }
    fn flush(&mut self) -> io::Result<()> {
        let call = self.flushes;
        self.flushes += 1;
        if let Some(k) = self.script.flush_faults.iter().find(|(i, _)| *i == call).map(|(_, k)| *k) {
            let token = self.failures.len() as u64 + 1;
            let kind = FAULT_KINDS[k as usize % FAULT_KINDS.len()];
            self.failures.push(WFailure { out_len: self.out.len(), token, kind: format!("{:?}", kind), in_flush: true });
            return Err(sim_error(kind, token));
        }
        Ok(())
    }
}

// ---------------------------------------------------------------------------------------------
// Async seam
// ---------------------------------------------------------------------------------------------

#[derive(Clone, Debug, PartialEq, Eq)]
pub enum AEv {
    /// complete the read with up to k bytes
    Ready(usize),
    /// return Pending and wake the task at once
    PendingWakeNow,
    /// return Pending; the wake is delivered by the executor's next turn
    PendingWakeLater,
    /// fail the read with a hard error of this kind index (see `FAULT_KINDS`); nothing is transferred
    Fail(u8),
}

#[derive(Clone, Debug, PartialEq, Eq, Default)]
pub struct AScript {
    pub events: Vec<AEv>,
    /// size of reads after the events are used up; 0 = fill the buffer
    pub rest: usize,
}

impl AScript {
    pub fn to_j(&self) -> J {
        json!({
            "events": self.events.iter().map(|e| match e {
                AEv::Ready(k) => json!(k),
                AEv::PendingWakeNow => json!("pending-now"),
                AEv::PendingWakeLater => json!("pending-later"),
                AEv::Fail(k) => json!({"fail": k}),
            }).collect::<Vec<_>>(),
            "rest": self.rest,
        })
    }
    pub fn from_j(j: &J) -> Result<AScript, String> {
        let mut events = Vec::new();
        for e in j.get("events").and_then(|v| v.as_array()).ok_or("ascript.events")? {
            events.push(match e {
                J::Number(n) => AEv::Ready(n.as_u64().unwrap_or(1) as usize),
                J::String(s) if s == "pending-now" => AEv::PendingWakeNow,
                J::String(s) if s == "pending-later" => AEv::PendingWakeLater,
                J::Object(o) if o.contains_key("fail") => AEv::Fail(o["fail"].as_u64().unwrap_or(0) as u8),
                _ => return Err("ascript event".into()),
            });
        }
        Ok(AScript { events, rest: j.get("rest").and_then(|v| v.as_u64()).ok_or("ascript.rest")? as usize })
    }
}

pub struct SimAsyncRead {
    pub data: Arc<Vec<u8>>,
    pub pos: usize,
    script: AScript,
    idx: usize,
    pub polls: usize,
    pub reads: usize,
    pub pendings: usize,
    pub deferred: Arc<DeferredWakes>,
    pub end_reads: usize,
    pub split_sizes: Vec<usize>,
    /// (bytes delivered before, token) of every injected hard error that was actually returned
    pub failures: Vec<(usize, u64)>,
}

#[derive(Default)]
pub struct DeferredWakes {
    pub wakers: std::sync::Mutex<Vec<Waker>>,
}

impl SimAsyncRead {
    pub fn new(data: Arc<Vec<u8>>, script: AScript, deferred: Arc<DeferredWakes>) -> Self {
        SimAsyncRead { data, pos: 0, script, idx: 0, polls: 0, reads: 0, pendings: 0, deferred, end_reads: 0, split_sizes: Vec::new(), failures: Vec::new() }
    }
}

impl futures::AsyncRead for SimAsyncRead {
    fn poll_read(mut self: Pin<&mut Self>, cx: &mut Context<'_>, buf: &mut [u8]) -> Poll<io::Result<usize>> {
        self.polls += 1;
        let ev = if self.idx < self.script.events.len() {
            let e = self.script.events[self.idx].clone();
            self.idx += 1;
            e
        } else {
            AEv::Ready(if self.script.rest == 0 { usize::MAX } else { self.script.rest })
        };
        match ev {
            AEv::PendingWakeNow => {
                self.pendings += 1;
                cx.waker().wake_by_ref();
                Poll::Pending
            }
            AEv::PendingWakeLater => {
                self.pendings += 1;
                self.deferred.wakers.lock().unwrap().push(cx.waker().clone());
                Poll::Pending
            }
            AEv::Fail(k) => {
                let token = self.failures.len() as u64 + 1;
                let at = self.pos;
                self.failures.push((at, token));
                Poll::Ready(Err(sim_error(FAULT_KINDS[k as usize % FAULT_KINDS.len()], token)))
            }
            AEv::Ready(k) => {
                self.reads += 1;
                let n = k.max(1).min(buf.len()).min(self.data.len() - self.pos);
                let p = self.pos;
                buf[..n].copy_from_slice(&self.data[p..p + n]);
                self.pos += n;
                if n == 0 {
                    self.end_reads += 1;
                } else {
                    self.split_sizes.push(n);
                }
                Poll::Ready(Ok(n))
            }
        }
    }
}

struct FlagWaker(AtomicBool);

impl Wake for FlagWaker {
    fn wake(self: Arc<Self>) {
        self.0.store(true, Ordering::SeqCst);
    }
    fn wake_by_ref(self: &Arc<Self>) {
        self.0.store(true, Ordering::SeqCst);
    }
}

#[derive(Debug)]
pub enum ExecError {
    /// the future returned Pending and nothing will ever wake it
    LostWake,
    /// more polls than the budget allows
    PollBudget,
}

/// Minimal single-threaded executor: polls the future when its wake flag is set; deferred wakes
/// (registered by the source) are delivered between polls. No threads, no time.
pub fn block_on<F: std::future::Future>(mut fut: Pin<&mut F>, deferred: &DeferredWakes, max_polls: usize, polls: &mut usize) -> Result<F::Output, ExecError> {
    let flag = Arc::new(FlagWaker(AtomicBool::new(true)));
    let waker = Waker::from(flag.clone());
    let mut cx = Context::from_waker(&waker);
    loop {
        if !flag.0.swap(false, Ordering::SeqCst) {
            // not woken: deliver deferred wakes (the executor's "next turn")
            let ws: Vec<Waker> = std::mem::take(&mut *deferred.wakers.lock().unwrap());
            if ws.is_empty() {
                return Err(ExecError::LostWake);
            }
            for w in ws {
                w.wake();
            }
            continue;
        }
        *polls += 1;
        if *polls > max_polls {
            return Err(ExecError::PollBudget);
        }
        if let Poll::Ready(v) = fut.as_mut().poll(&mut cx) {
            return Ok(v);
        }
    }
}
