//! Explicit, replayable case descriptions shared by the reader-side checks, with JSON forms and
//! generic shrinkers.

use std::sync::Arc;

use serde_json::{json, Value as J};

use crate::enc::{self, Node};
use crate::gen::{self, DocOpts, FaultStats, SpecOpts};
use crate::harness::{Driver, IterCfg, MaxSz, ALLOW_HIER, ALLOW_IDS, ALLOW_OVERSIZE};
use crate::io::{self, RScript};
use crate::rng::Rng;
use crate::runner::{Fp, Tier};
use crate::spec::{SpecTable, Ty};
use crate::val::{bytes_from_j, bytes_to_j};

#[derive(Clone, Debug)]
pub struct ReadCase {
    pub spec: SpecTable,
    pub input: Arc<Vec<u8>>,
    pub cfg: IterCfg,
    pub script: RScript,
    pub driver: Driver,
    /// how the input was made (for coverage accounting only)
    pub class: &'static str,
}

impl ReadCase {
    pub fn to_j(&self) -> J {
        json!({
            "spec": self.spec.to_j(),
            "input": bytes_to_j(&self.input),
            "cfg": self.cfg.to_j(),
            "script": self.script.to_j(),
            "driver": self.driver.to_j(),
            "class": self.class,
        })
    }
    pub fn from_j(j: &J) -> Result<ReadCase, String> {
        Ok(ReadCase {
            spec: SpecTable::from_j(j.get("spec").ok_or("case.spec")?)?,
            input: Arc::new(bytes_from_j(j.get("input").ok_or("case.input")?)?),
            cfg: IterCfg::from_j(j.get("cfg").ok_or("case.cfg")?)?,
            script: RScript::from_j(j.get("script").ok_or("case.script")?)?,
            driver: Driver::from_j(j.get("driver").ok_or("case.driver")?)?,
            class: "replayed",
        })
    }
    pub fn fingerprint(&self) -> u64 {
        let mut f = Fp::default();
        f.bytes(&self.input);
        f.u(self.cfg.allow as u64).u(self.cfg.capacity.map(|c| c as u64 + 1).unwrap_or(0)).u(self.cfg.eof_end as u64);
        f.u(self.cfg.order as u64).u(self.cfg.decoy.map_or(0, |(m, k, e)| 1 + m as u64 + 8 * k as u64 + 64 * e as u64));
        for b in &self.cfg.buffered {
            f.u(*b);
        }
        match &self.cfg.max_size {
            MaxSz::Default => f.u(1),
            MaxSz::Unlimited => f.u(2),
            MaxSz::Limit(n) => f.u(3).u(*n as u64),
        };
        for c in &self.script.chunks {
            f.u(*c as u64);
        }
        f.u(self.script.rest as u64);
        for p in &self.script.pauses {
            f.u(*p as u64 | 1 << 40);
        }
        for (i, k) in &self.script.faults {
            f.u(*i as u64 | 1 << 41).s(&format!("{:?}", k));
        }
        for (i, k) in &self.script.pos_faults {
            f.u(*i as u64 | 1 << 44).s(&format!("{:?}", k));
        }
        f.s(&format!("{:?}", self.driver));
        for e in &self.spec.elems {
            f.u(e.id).u(e.ty as u64).u(e.path.len() as u64);
        }
        f.0
    }

    /// Generic simplifications: schedule, capacity, configuration, then the bytes.
    pub fn shrink(&self, shrink_bytes: bool) -> Vec<ReadCase> {
        let mut v = Vec::new();
        let mut push = |c: ReadCase| v.push(c);
        if !self.script.is_whole() {
            let mut c = self.clone();
            c.script = RScript::whole();
            push(c);
            if !self.script.faults.is_empty() {
                let mut c = self.clone();
                c.script.faults.clear();
                push(c);
                for i in 0..self.script.faults.len() {
                    let mut c = self.clone();
                    c.script.faults.remove(i);
                    push(c);
                }
            }
            if !self.script.pauses.is_empty() {
                let mut c = self.clone();
                c.script.pauses.clear();
                push(c);
                for i in 0..self.script.pauses.len() {
                    let mut c = self.clone();
                    c.script.pauses.remove(i);
                    push(c);
                }
            }
            if !self.script.chunks.is_empty() {
                let mut c = self.clone();
                c.script.chunks.clear();
                push(c);
                let mut c = self.clone();
                c.script.chunks.truncate(self.script.chunks.len() / 2);
                push(c);
                if self.script.chunks.len() <= 12 {
                    for i in 0..self.script.chunks.len() {
                        let mut c = self.clone();
                        c.script.chunks.remove(i);
                        push(c);
                    }
                }
            }
            if self.script.rest != 0 {
                let mut c = self.clone();
                c.script.rest = 0;
                push(c);
            }
            if self.script.rest > 1 {
                let mut c = self.clone();
                c.script.rest = 1;
                push(c);
            }
        }
        if self.cfg.capacity.is_some() {
            let mut c = self.clone();
            c.cfg.capacity = None;
            push(c);
        }
        if !self.cfg.buffered.is_empty() {
            let mut c = self.clone();
            c.cfg.buffered.clear();
            push(c);
            for i in 0..self.cfg.buffered.len() {
                let mut c = self.clone();
                c.cfg.buffered.remove(i);
                push(c);
            }
        }
        if self.cfg.allow != 0 {
            let mut c = self.clone();
            c.cfg.allow = 0;
            push(c);
            for bit in [ALLOW_IDS, ALLOW_HIER, ALLOW_OVERSIZE] {
                if self.cfg.allow & bit != 0 && self.cfg.allow != bit {
                    let mut c = self.clone();
                    c.cfg.allow &= !bit;
                    push(c);
                }
            }
        }
        if !self.cfg.eof_end {
            let mut c = self.clone();
            c.cfg.eof_end = true;
            push(c);
        }
        match &self.driver {
            Driver::Script(ops) if ops.len() > 1 => {
                let mut c = self.clone();
                c.driver = Driver::Script(ops[..ops.len() - 1].to_vec());
                push(c);
                if ops.len() <= 24 {
                    for i in 0..ops.len() {
                        let mut o = ops.clone();
                        o.remove(i);
                        let mut c = self.clone();
                        c.driver = Driver::Script(o);
                        push(c);
                    }
                }
            }
            Driver::UntilEnd { extra } | Driver::Streaming { extra } if *extra > 0 => {
                let mut c = self.clone();
                c.driver = match &self.driver {
                    Driver::Streaming { .. } => Driver::Streaming { extra: 0 },
                    _ => Driver::UntilEnd { extra: 0 },
                };
                push(c);
            }
            _ => {}
        }
        if shrink_bytes {
            let n = self.input.len();
            // cut the tail, then remove interior ranges, coarse to fine
            let mut k = n / 2;
            while k >= 1 {
                let mut c = self.clone();
                c.input = Arc::new(self.input[..n - k].to_vec());
                push(c);
                k /= 2;
            }
            let mut w = (n / 4).max(1);
            loop {
                let mut start = 0;
                let mut made = 0;
                while start + w <= n && made < 64 {
                    let mut b = self.input.to_vec();
                    b.drain(start..start + w);
                    let mut c = self.clone();
                    c.input = Arc::new(b);
                    push(c);
                    start += w;
                    made += 1;
                }
                if w == 1 {
                    break;
                }
                w /= 2;
            }
            if n <= 64 {
                for i in 0..n {
                    if self.input[i] != 0 {
                        let mut b = self.input.to_vec();
                        b[i] = 0;
                        let mut c = self.clone();
                        c.input = Arc::new(b);
                        push(c);
                    }
                }
            }
        }
        // drop specification entries that do not occur in the input (approximation: id bytes absent)
        if self.spec.kind == crate::spec::SpecKind::Dyn && self.spec.elems.len() > 1 {
            let keep: Vec<_> = self
                .spec
                .elems
                .iter()
                .filter(|e| {
                    let ib = enc::id_bytes(e.id);
                    self.input.windows(ib.len()).any(|w| w == &ib[..]) || self.cfg.buffered.contains(&e.id) || self.spec.elems.iter().any(|o| o.path.iter().any(|p| matches!(p, ebml_iterable::specs::PathPart::Id(x) if *x == e.id)) && self.input.windows(enc::id_bytes(o.id).len()).any(|w| w == &enc::id_bytes(o.id)[..]))
                })
                .cloned()
                .collect();
            if keep.len() < self.spec.elems.len() && !keep.is_empty() {
                let mut c = self.clone();
                c.spec.elems = keep;
                push(c);
            }
        }
        v
    }
}

pub fn gen_allow(rng: &mut Rng, strict_pct: u64) -> u8 {
    if rng.below(100) < strict_pct {
        0
    } else {
        rng.below(8) as u8
    }
}

pub fn gen_buffered(rng: &mut Rng, spec: &SpecTable, pct: u64) -> Vec<u64> {
    if rng.below(100) >= pct {
        return vec![];
    }
    let ms = spec.masters();
    if ms.is_empty() {
        return vec![];
    }
    let n = rng.range(1, 3.min(ms.len()));
    let mut v: Vec<u64> = Vec::new();
    for _ in 0..n {
        let m = *rng.pick(&ms);
        if !v.contains(&m) {
            v.push(m);
        }
    }
    v
}

#[derive(Clone, Debug)]
pub struct InputOpts {
    pub doc: DocOpts,
    /// percentages; the remainder are valid documents
    pub faulted_pct: u64,
    pub truncated_pct: u64,
    pub random_pct: u64,
    pub soup_pct: u64,
    pub max_faults: usize,
    /// valid documents cut to start at an inner element boundary (reading starts mid-document)
    pub mid_document_pct: u64,
}

pub struct GenInput {
    pub bytes: Vec<u8>,
    /// present when the bytes are exactly the encoding of `doc`
    pub doc: Option<Vec<Node>>,
    pub class: &'static str,
}

pub fn gen_input(rng: &mut Rng, spec: &SpecTable, o: &InputOpts, fs: &mut FaultStats) -> GenInput {
    let r = rng.below(100);
    if r < o.random_pct {
        let n = match rng.below(4) {
            0 => rng.range(0, 8),
            1 => rng.range(0, 32),
            _ => rng.range(0, 200),
        };
        return GenInput { bytes: rng.bytes(n), doc: None, class: "random" };
    }
    if r < o.random_pct + o.soup_pct {
        let n = rng.range(1, 12);
        return GenInput { bytes: gen::header_soup(rng, spec, n), doc: None, class: "header-soup" };
    }
    let doc = gen::gen_doc(rng, spec, &o.doc);
    let e = enc::encode(&doc);
    let mut bytes = e.bytes.clone();
    if r < o.random_pct + o.soup_pct + o.faulted_pct {
        gen::byte_faults(rng, &mut bytes, o.max_faults, fs);
        return GenInput { bytes, doc: None, class: "byte-faulted" };
    }
    if r < o.random_pct + o.soup_pct + o.faulted_pct + o.truncated_pct {
        let cut = rng.range(0, bytes.len());
        bytes.truncate(cut);
        fs.truncations += 1;
        return GenInput { bytes, doc: None, class: "truncated" };
    }
    if rng.below(100) < o.mid_document_pct {
        let offs: Vec<usize> = e.layout.elems.iter().map(|x| x.off).filter(|x| *x > 0).collect();
        if !offs.is_empty() {
            let at = *rng.pick(&offs);
            return GenInput { bytes: bytes[at..].to_vec(), doc: None, class: "mid-document" };
        }
    }
    GenInput { bytes, doc: Some(doc), class: "valid" }
}

pub fn spec_for(spec_seed: u64, o: &SpecOpts) -> SpecTable {
    let mut r = Rng::new(spec_seed);
    gen::gen_spec(&mut r, o)
}

/// Tag boundaries as the parser sees them: offsets of the non-End items of a reference run.
pub fn item_boundaries(items: &[(crate::val::TagV, usize)], total: usize) -> Vec<usize> {
    let mut v: Vec<usize> = items.iter().filter(|(t, _)| !t.is_end()).map(|(_, o)| *o).collect();
    v.push(total);
    v.sort();
    v.dedup();
    v
}

pub fn doc_opts_for(tier: Tier, rng: &mut Rng) -> DocOpts {
    let mut d = DocOpts::default();
    // swarm: which features are on in this run
    d.unknown_pct = *rng.pick(&[0u64, 0, 20, 50, 90]);
    d.width_pct = *rng.pick(&[0u64, 0, 15, 60]);
    d.noncanonical_pct = *rng.pick(&[0u64, 0, 30]);
    d.max_nodes = *rng.pick(&[3usize, 8, 20, 40]);
    d.pay.boundary_pct = *rng.pick(&[0u64, 5, 20]);
    d.pay.max_len = match tier {
        Tier::Quick => {
            if rng.chance(1, 40) {
                // a few elements of 16 KiB and 64 KiB(+-): streams longer than the default buffer, elements larger than it
                d.pay.boundary_pct = 50;
                d.max_nodes = d.max_nodes.min(10);
                70_000
            } else {
                *rng.pick(&[24usize, 300, 300, 16385])
            }
        }
        Tier::Thorough => {
            if rng.chance(1, 300) {
                // the 2^21 size-field boundary: rare, a run with such payloads costs milliseconds
                d.pay.boundary_pct = 30;
                d.max_nodes = d.max_nodes.min(8);
                2_097_153
            } else {
                *rng.pick(&[24usize, 300, 16385, 65537])
            }
        }
    };
    d
}

pub fn has_type(spec: &SpecTable, id: u64, ty: Ty) -> bool {
    spec.ty(id) == Some(ty)
}

pub fn _unused(_: &io::RScript) {}

// ---------------------------------------------------------------------------------------------
// Document shrinking (keeps documents specification-valid: only removals and simplifications)
// ---------------------------------------------------------------------------------------------

fn node_paths(doc: &[Node], prefix: &mut Vec<usize>, out: &mut Vec<Vec<usize>>) {
    for (i, n) in doc.iter().enumerate() {
        prefix.push(i);
        out.push(prefix.clone());
        if let enc::Body::Master(cs) = &n.body {
            node_paths(cs, prefix, out);
        }
        prefix.pop();
    }
}

fn with_node<R>(doc: &mut Vec<Node>, path: &[usize], f: &mut dyn FnMut(&mut Vec<Node>, usize) -> R) -> R {
    if path.len() == 1 {
        f(doc, path[0])
    } else {
        match &mut doc[path[0]].body {
            enc::Body::Master(cs) => with_node(cs, &path[1..], f),
            _ => unreachable!(),
        }
    }
}

/// Simpler documents: subtrees removed, payloads shrunk, encoding choices reset.
pub fn shrink_doc(doc: &[Node]) -> Vec<Vec<Node>> {
    use crate::val::Val;
    let mut out = Vec::new();
    let mut paths = Vec::new();
    node_paths(doc, &mut Vec::new(), &mut paths);
    // removals, big subtrees first
    let mut sized: Vec<(usize, Vec<usize>)> = paths
        .iter()
        .map(|p| {
            let mut d = doc.to_vec();
            let c = with_node(&mut d, p, &mut |v, i| v[i].count());
            (c, p.clone())
        })
        .collect();
    sized.sort_by(|a, b| b.0.cmp(&a.0));
    for (_, p) in &sized {
        let mut d = doc.to_vec();
        with_node(&mut d, p, &mut |v, i| {
            v.remove(i);
        });
        if !d.is_empty() {
            out.push(d);
        }
    }
    for p in &paths {
        let mut d = doc.to_vec();
        let changed = with_node(&mut d, p, &mut |v, i| {
            let n = &mut v[i];
            let mut ch = false;
            if n.enc != enc::Enc::default() {
                n.enc = enc::Enc::default();
                ch = true;
            }
            ch
        });
        if changed {
            out.push(d);
        }
        let mut d = doc.to_vec();
        let changed = with_node(&mut d, p, &mut |v, i| {
            let n = &mut v[i];
            match &mut n.body {
                enc::Body::Leaf(Val::U(x)) if *x != 0 => {
                    *x = 0;
                    n.enc.pay_len = None;
                    true
                }
                enc::Body::Leaf(Val::I(x)) if *x != 0 => {
                    *x = 0;
                    n.enc.pay_len = None;
                    true
                }
                enc::Body::Leaf(Val::F(x)) if *x != 0 => {
                    *x = 0;
                    true
                }
                enc::Body::Leaf(Val::S(s)) if !s.is_empty() => {
                    let keep = s.len() / 2;
                    *s = "a".repeat(keep);
                    true
                }
                enc::Body::Leaf(Val::B(b)) | enc::Body::Leaf(Val::Raw(b)) if !b.is_empty() => {
                    let keep = b.len() / 2;
                    *b = vec![0; keep];
                    true
                }
                _ => false,
            }
        });
        if changed && d.iter().all(enc::encodable) {
            out.push(d);
        }
    }
    out.retain(|d| d.iter().all(enc::encodable));
    out
}

/// Specification entries that a document does not use (directly or as a declared parent) removed.
pub fn prune_spec(spec: &SpecTable, doc: &[Node], keep_extra: &[u64]) -> Option<SpecTable> {
    if spec.kind != crate::spec::SpecKind::Dyn {
        return None;
    }
    let mut used: Vec<u64> = keep_extra.to_vec();
    for n in doc {
        n.visit(&mut |x, _| used.push(x.id), 0);
    }
    let mut grow = true;
    while grow {
        grow = false;
        for e in &spec.elems {
            if used.contains(&e.id) {
                for p in &e.path {
                    if let ebml_iterable::specs::PathPart::Id(x) = p {
                        if !used.contains(x) {
                            used.push(*x);
                            grow = true;
                        }
                    }
                }
            }
        }
    }
    let keep: Vec<_> = spec.elems.iter().filter(|e| used.contains(&e.id)).cloned().collect();
    if keep.len() < spec.elems.len() && !keep.is_empty() {
        Some(SpecTable { kind: spec.kind.clone(), elems: keep })
    } else {
        None
    }
}
