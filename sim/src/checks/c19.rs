//! C19 — a rejected write leaves no trace in the output.
//! Fault enumeration: a failing call of each kind inserted at every position of a valid call
//! history; differential between the history with and without the failing calls (real code both sides).

use serde_json::{json, Value as J};

use crate::cases;
use crate::fail;
use crate::gen::{self, SpecOpts};
use crate::harness::{run_writer, Opt, WOp, WTrace};
use crate::io::{self, WScript};
use crate::rng::Rng;
use crate::runner::{Check, ExecOk, Fail, Fp, Stats, Tier};
use crate::spec::{SpecTable, Ty};
use crate::val::{TagV, Val, WErrV};
use crate::wcases::{self, PresentOpts};

pub struct C19;

#[derive(Clone, Debug)]
pub struct Case {
    pub spec: SpecTable,
    /// the valid history H
    pub ops: Vec<WOp>,
    pub wscript: WScript,
    /// (position in H, failing call, expected error kind); empty = enumerate every position × kind
    pub insertions: Vec<(usize, WOp, String)>,
    pub iseed: u64,
}

fn describe(ops: &[WOp]) -> String {
    ops.iter().map(|o| o.short()).collect::<Vec<_>>().join(" ")
}

fn chain_at(ops: &[WOp]) -> Vec<u64> {
    wcases::open_after(ops).iter().map(|m| m.id).collect()
}

fn leaf_val(rng: &mut Rng, ty: Ty) -> Val {
    gen::gen_leaf_val(rng, ty, &gen::PayOpts { max_len: 12, boundary_pct: 0 })
}

/// Failing calls that can be inserted before position `p` of `h`, one per applicable kind.
pub fn failing_calls(rng: &mut Rng, spec: &SpecTable, h: &[WOp], p: usize) -> Vec<(WOp, &'static str, &'static str)> {
    let chain = chain_at(&h[..p]);
    let mut v: Vec<(WOp, &'static str, &'static str)> = Vec::new();
    let leaves: Vec<_> = spec.elems.iter().filter(|e| e.ty != Ty::Master).collect();
    let masters: Vec<_> = spec.elems.iter().filter(|e| e.ty == Ty::Master).collect();
    // 1. a tag that is not allowed here
    let bad: Vec<_> = spec.elems.iter().filter(|e| !spec.allowed(e.id, &chain)).collect();
    if !bad.is_empty() {
        let e = *rng.pick(&bad);
        let t = if e.ty == Ty::Master { TagV::new(e.id, if rng.chance(1, 2) { Val::Start } else { Val::Full(vec![]) }) } else { TagV::new(e.id, leaf_val(rng, e.ty)) };
        let opt = if e.ty == Ty::Master && t.is_start() && rng.chance(1, 3) { Opt::Unknown } else if rng.chance(1, 4) { Opt::Width(rng.range(1, 8) as u8) } else { Opt::Default };
        v.push((WOp::Write(t, opt), "UnexpectedTag", "not-allowed-here"));
    }
    // 2. payload not representable in the requested width (the tag itself is allowed here)
    let ok_wide: Vec<_> = leaves.iter().filter(|e| matches!(e.ty, Ty::Bin | Ty::Utf8) && spec.allowed(e.id, &chain)).collect();
    if !ok_wide.is_empty() {
        let e = **rng.pick(&ok_wide);
        let len = *rng.pick(&[127usize, 128, 200, 300]);
        let val = if e.ty == Ty::Bin { Val::B(vec![7; len]) } else { Val::S("x".repeat(len)) };
        v.push((WOp::Write(TagV::new(e.id, val), Opt::Width(1)), "TagSizeError", "size-not-representable"));
    }
    {
        // the same through a raw tag (no hierarchy check applies to it)
        let id = loop {
            let id = gen::gen_id(rng, 2);
            if spec.get(id).is_none() {
                break id;
            }
        };
        v.push((WOp::Write(TagV::new(id, Val::Raw(vec![9; 127 + rng.range(0, 40)])), Opt::Width(1)), "TagSizeError", "raw-size-not-representable"));
    }
    // 4. unknown size on a non-master
    if !leaves.is_empty() {
        let e = *rng.pick(&leaves);
        let t = TagV::new(e.id, leaf_val(rng, e.ty));
        if rng.chance(1, 2) {
            v.push((WOp::Write(t, Opt::Unknown), "TagSizeError", "unknown-size-on-non-master"));
        } else {
            v.push((WOp::WriteUnknownDeprecated(t), "TagSizeError", "unknown-size-on-non-master"));
        }
    }
    // 5. raw tag with a malformed id
    {
        let id = *rng.pick(&[0x11u64, 0x7a, 1234, 0xfa4c, 0x1a5d, 0x0100, 0x3fff_ffff]);
        if spec.get(id).is_none() && !crate::enc::id_well_formed(id) {
            v.push((WOp::Write(TagV::new(id, Val::Raw(vec![1, 2, 3])), Opt::Default), "TagIdError", "malformed-raw-id"));
        }
    }
    // 6. End of a master that is not the innermost open one / with nothing open
    if !masters.is_empty() {
        let cands: Vec<_> = masters.iter().filter(|m| chain.last() != Some(&m.id)).collect();
        if !cands.is_empty() {
            let m = **rng.pick(&cands);
            v.push((WOp::Write(TagV::new(m.id, Val::End), Opt::Default), "UnexpectedClosingTag", "mismatched-end"));
        }
    }
    // 7. a Full master (allowed here) with an invalid child at some depth and position
    let ok_m: Vec<_> = masters.iter().filter(|m| spec.allowed(m.id, &chain)).collect();
    if !ok_m.is_empty() {
        let m = **rng.pick(&ok_m);
        let mut inner_chain = chain.clone();
        inner_chain.push(m.id);
        let good: Vec<_> = leaves.iter().filter(|e| spec.allowed(e.id, &inner_chain)).collect();
        let badc: Vec<_> = leaves.iter().filter(|e| !spec.allowed(e.id, &inner_chain)).collect();
        if !badc.is_empty() {
            let b = **rng.pick(&badc);
            let mut cs: Vec<TagV> = Vec::new();
            for _ in 0..rng.range(0, 2) {
                if !good.is_empty() {
                    let g = **rng.pick(&good);
                    cs.push(TagV::new(g.id, leaf_val(rng, g.ty)));
                }
            }
            let mut bad_tag = TagV::new(b.id, leaf_val(rng, b.ty));
            // sometimes one level deeper, inside a nested Full that is itself allowed
            let nested: Vec<_> = masters.iter().filter(|x| spec.allowed(x.id, &inner_chain)).collect();
            if !nested.is_empty() && rng.chance(1, 3) {
                let nm = **rng.pick(&nested);
                let mut c2 = inner_chain.clone();
                c2.push(nm.id);
                let bad2: Vec<_> = leaves.iter().filter(|e| !spec.allowed(e.id, &c2)).collect();
                if !bad2.is_empty() {
                    let b2 = **rng.pick(&bad2);
                    bad_tag = TagV::new(nm.id, Val::Full(vec![TagV::new(b2.id, leaf_val(rng, b2.ty))]));
                }
            }
            let at = rng.range(0, cs.len());
            cs.insert(at, bad_tag);
            v.push((WOp::Write(TagV::new(m.id, Val::Full(cs)), if rng.chance(1, 4) { Opt::Width(rng.range(2, 8) as u8) } else { Opt::Default }), "UnexpectedTag", "full-with-invalid-child"));
        }
    }
    // 8. a Full master (allowed here, all children valid) whose own End is rejected: content too long for the
    //    width requested for it, or a child Start that is never closed inside it
    if !ok_m.is_empty() {
        let m = **rng.pick(&ok_m);
        let mut inner_chain = chain.clone();
        inner_chain.push(m.id);
        let wide: Vec<_> = leaves.iter().filter(|e| matches!(e.ty, Ty::Bin | Ty::Utf8) && spec.allowed(e.id, &inner_chain)).collect();
        if !wide.is_empty() {
            let e = **rng.pick(&wide);
            let len = *rng.pick(&[125usize, 126, 127, 130, 200]);
            let hdr = crate::enc::id_bytes(e.id).len() + if len >= 127 { 2 } else { 1 };
            if hdr + len >= 127 {
                let val = if e.ty == Ty::Bin { Val::B(vec![5; len]) } else { Val::S("y".repeat(len)) };
                v.push((WOp::Write(TagV::new(m.id, Val::Full(vec![TagV::new(e.id, val)])), Opt::Width(1)), "TagSizeError", "full-too-narrow"));
            }
        }
        let nested: Vec<_> = masters.iter().filter(|x| spec.allowed(x.id, &inner_chain) && x.id != m.id).collect();
        if !nested.is_empty() {
            let nm = **rng.pick(&nested);
            v.push((WOp::Write(TagV::new(m.id, Val::Full(vec![TagV::new(nm.id, Val::Start)])), Opt::Default), "UnexpectedClosingTag", "full-with-unclosed-start"));
        }
    }
    // 9. a Full master (allowed here) whose children close more than they open: its own End among them, and then
    //    possibly the Ends of enclosing masters too. Each such child is a legal End at the moment it is written; the
    //    call fails when the master's own End finds something else (or nothing) open.
    if !ok_m.is_empty() {
        let m = **rng.pick(&ok_m);
        let mut inner_chain = chain.clone();
        inner_chain.push(m.id);
        let good: Vec<_> = leaves.iter().filter(|e| spec.allowed(e.id, &inner_chain)).collect();
        let mut cs: Vec<TagV> = Vec::new();
        for _ in 0..rng.range(0, 2) {
            if !good.is_empty() {
                let g = **rng.pick(&good);
                cs.push(TagV::new(g.id, leaf_val(rng, g.ty)));
            }
        }
        cs.push(TagV::new(m.id, Val::End));
        let extra = rng.range(0, chain.len().min(2));
        for k in 0..extra {
            cs.push(TagV::new(chain[chain.len() - 1 - k], Val::End));
        }
        v.push((WOp::Write(TagV::new(m.id, Val::Full(cs)), Opt::Default), "UnexpectedClosingTag", "full-closing-more-than-it-opens"));
    }
    v
}

fn same_result(a: &Result<(), WErrV>, b: &Result<(), WErrV>) -> bool {
    a == b
}

/// Runs H' = H with `ins` inserted and compares with the run of H.
fn check_insertions(c: &Case, base: &WTrace, ins: &[(usize, WOp, String)], st: &mut Stats) -> Result<bool, Fail> {
    let mut ops2: Vec<WOp> = Vec::new();
    let mut map: Vec<Option<usize>> = Vec::new(); // for each op of H': index in H, or None if inserted
    for p in 0..=c.ops.len() {
        for (q, op, _) in ins.iter() {
            if *q == p {
                ops2.push(op.clone());
                map.push(None);
            }
        }
        if p < c.ops.len() {
            ops2.push(c.ops[p].clone());
            map.push(Some(p));
        }
    }
    let w = run_writer(&c.spec, &ops2, &c.wscript, true);
    st.add("writer_calls", ops2.len() as u64 + 1);
    st.inc("histories_with_insertions");
    let ctx = || format!("H : {}\n H': {}\n inserted: {}", describe(&c.ops), describe(&ops2), ins.iter().map(|(p, o, k)| format!("[{} before call {} expecting {}]", o.short(), p, k)).collect::<Vec<_>>().join(" "));
    if let Some(p) = &w.panic {
        fail!("panic", "the writer panicked: {}\n {}", p, ctx());
    }
    // inserted calls must fail with the expected kind; if one is accepted, the premise is gone
    let mut k = 0;
    for (i, m) in map.iter().enumerate() {
        if m.is_none() {
            let want = &ins[k].2;
            k += 1;
            match &w.results[i] {
                Ok(()) => {
                    // not a C19 matter: C11 judges acceptance (hierarchy), width boundary cases are left open
                    st.inc("expected_failure_was_accepted");
                    if std::env::var("VERIF_TRACE_REJECT").is_ok() {
                        eprintln!("C19 expected failure accepted: {} (expecting {})\n {}", ops2[i].short(), want, ctx());
                    }
                    return Ok(false);
                }
                Err(e) if e.kind() != want.as_str() => {
                    if matches!(e, WErrV::Write { .. }) {
                        return Ok(false);
                    }
                    // which (non-I/O) error a rejected call returns is not C19's matter: it only has to leave no trace
                    st.inc("rejected_with_another_error_kind_than_anticipated");
                }
                Err(_) => {}
            }
        }
    }
    // every original call returns what it returned in H, and the sink holds the same bytes after it
    for (i, m) in map.iter().enumerate() {
        if let Some(h) = m {
            if !same_result(&w.results[i], &base.results[*h]) {
                fail!("later-call-behaves-differently", "call {} of H ({}) returned {:?} in H but {:?} after the failing insertion(s)\n {}", h, c.ops[*h].short(), base.results[*h], w.results[i], ctx());
            }
            if w.delivered_after[i] != base.delivered_after[*h] {
                // when bytes leave is C10's subject; C19 fixes the final output and the later calls' results. Counted only.
                st.inc("observed_delivery_timing_differs_after_rejection");
            }
        }
    }
    // (results are compared by kind: the text of an error message is nobody's property)
    let kind_of = |r: &Option<Result<(), WErrV>>| r.as_ref().map(|x| x.as_ref().map_err(|e| e.kind().to_string()).map(|_| ()));
    if kind_of(&w.into_inner) != kind_of(&base.into_inner) {
        fail!("into-inner-differs", "into_inner() returned {:?} in H but {:?} in H'\n {}", base.into_inner, w.into_inner, ctx());
    }
    // when into_inner() fails (the End-too-narrow kind), "the final output" is whatever had been handed over by then, which
    // is a matter of timing: compared only when it succeeded
    if matches!(base.into_inner, Some(Ok(()))) && w.out != base.out {
        let k = w.out.iter().zip(base.out.iter()).take_while(|(a, b)| a == b).count();
        fail!("final-output-differs", "final outputs differ at byte {} ({} bytes in H, {} in H')\n H  bytes: {}\n H' bytes: {}\n {}", k, base.out.len(), w.out.len(), if base.out.len() <= 120 { crate::val::hex(&base.out) } else { "…".into() }, if w.out.len() <= 120 { crate::val::hex(&w.out) } else { "…".into() }, ctx());
    }
    Ok(true)
}

impl Check for C19 {
    type Case = Case;
    fn id(&self) -> &'static str {
        "C19"
    }
    fn num(&self) -> u64 {
        19
    }
    fn level(&self) -> &'static str {
        "fault_enumeration"
    }
    fn runs(&self, tier: Tier) -> u64 {
        match tier {
            Tier::Quick => 250_000,
            Tier::Thorough => 7_500_000,
        }
    }

    fn gen(&self, seed: u64, spec_seed: u64, tier: Tier) -> Case {
        let mut rng = Rng::new(seed);
        let spec = cases::spec_for(spec_seed, &SpecOpts::default());
        let mut o = cases::doc_opts_for(tier, &mut rng);
        o.noncanonical_pct = 0;
        o.pay.max_len = *rng.pick(&[8usize, 24, 140]);
        o.pay.boundary_pct = 0;
        o.max_nodes = *rng.pick(&[2usize, 5, 10, 20]);
        o.raw_pct = *rng.pick(&[0u64, 10]);
        let mut doc = gen::gen_doc(&mut rng, &spec, &o);
        // the "End too narrow" kind needs a master whose content does not fit the width asked for
        // at its Start and that H never ends explicitly: make the last root such a master sometimes
        let narrow = rng.chance(1, 5);
        if narrow {
            if let Some(last) = doc.last_mut() {
                if last.is_master() && !last.enc.unknown && spec.allowed(crate::spec::VOID_ID, &[last.id]) {
                    if let crate::enc::Body::Master(cs) = &mut last.body {
                        if !cs.last().map(|c| c.is_master() && c.enc.unknown).unwrap_or(false) {
                            cs.push(crate::enc::Node::leaf(crate::spec::VOID_ID, Val::B(vec![0; 130])));
                        }
                    }
                    last.enc.size_w = 0;
                }
            }
        }
        let mut ops = Vec::new();
        let full_pct = *rng.pick(&[0u64, 30]);
        wcases::present(&mut rng, &doc, &PresentOpts { full_pct, ..Default::default() }, &mut ops);
        if narrow {
            // turn the last root's Start into Width(1) and drop its explicit End
            if let Some(WOp::Write(t, _)) = ops.last() {
                if t.is_end() {
                    let id = t.id;
                    if let Some(s) = ops.iter().rposition(|o| matches!(o, WOp::Write(t, Opt::Default) if t.is_start() && t.id == id)) {
                        ops[s] = WOp::Write(TagV::new(id, Val::Start), Opt::Width(1));
                        ops.pop();
                    }
                }
            }
        }
        Case { spec, ops, wscript: io::gen_wscript(&mut rng), insertions: vec![], iseed: rng.next() }
    }

    fn exec(&self, c: &Case, st: &mut Stats) -> Result<ExecOk, Fail> {
        let base = run_writer(&c.spec, &c.ops, &c.wscript, true);
        st.add("writer_calls", c.ops.len() as u64 + 1);
        if base.panic.is_some() {
            st.inc("skipped_base_panics");
            return Ok(ExecOk { nontrivial: false });
        }
        // H must be valid call by call (only its final into_inner() may fail, for the narrow-master kind)
        if base.results.iter().any(|r| r.is_err()) {
            st.inc("skipped_base_history_rejected");
            return Ok(ExecOk { nontrivial: false });
        }
        st.inc("histories");
        if !matches!(base.into_inner, Some(Ok(()))) {
            st.inc("probe_base_with_failing_into_inner");
        }
        let mut judged = 0u64;
        if !c.insertions.is_empty() {
            if c.insertions.iter().any(|(p, _, _)| *p > c.ops.len()) {
                st.inc("out_of_scope");
                return Ok(ExecOk { nontrivial: false });
            }
            if check_insertions(c, &base, &c.insertions, st)? {
                judged += 1;
            }
        } else {
            let mut ir = Rng::new(c.iseed);
            let mut all: Vec<(usize, WOp, &'static str, &'static str)> = Vec::new();
            for p in 0..=c.ops.len() {
                for (op, kind, name) in failing_calls(&mut ir, &c.spec, &c.ops, p) {
                    all.push((p, op, kind, name));
                }
                // the End that is too narrow: only where the narrow master is the innermost open one
                let open = wcases::open_after(&c.ops[..p]);
                if let Some(m) = open.last() {
                    let start = c.ops[..p].iter().rposition(|o| matches!(o, WOp::Write(t, Opt::Width(1)) if t.is_start() && t.id == m.id));
                    if let Some(s) = start {
                        // content written since the Start must exceed 126 bytes: judge by the base run's final output
                        let content: usize = wcases::written_tags(&c.ops[s + 1..p]).iter().map(|t| match &t.val {
                            Val::B(b) | Val::Raw(b) => b.len() + 2,
                            Val::S(s) => s.len() + 2,
                            _ => 2,
                        }).sum();
                        if content > 127 && wcases::open_after(&c.ops[..p]).len() == wcases::open_after(&c.ops[..=s]).len() {
                            all.push((p, WOp::Write(TagV::new(m.id, Val::End), Opt::Default), "TagSizeError", "end-too-narrow"));
                        }
                    }
                }
            }
            for (p, op, kind, name) in &all {
                if check_insertions(c, &base, &[(*p, op.clone(), kind.to_string())], st).map_err(|f| Fail::new(&f.clause, format!("[{}] {}", name, f.detail)))? {
                    judged += 1;
                    st.inc(match *name {
                        "not-allowed-here" => "fault_not_allowed_here",
                        "size-not-representable" => "fault_size_not_representable",
                        "raw-size-not-representable" => "fault_raw_size_not_representable",
                        "unknown-size-on-non-master" => "fault_unknown_size_on_non_master",
                        "malformed-raw-id" => "fault_malformed_raw_id",
                        "mismatched-end" => "fault_mismatched_end",
                        "full-with-invalid-child" => "fault_full_with_invalid_child",
                        "full-too-narrow" => "fault_full_too_narrow",
                        "full-with-unclosed-start" => "fault_full_with_unclosed_start",
                        _ => "fault_end_too_narrow",
                    });
                }
            }
            // small combinations: two failing calls in one history
            if all.len() >= 2 {
                for _ in 0..4 {
                    let a = ir.below(all.len() as u64) as usize;
                    let b = ir.below(all.len() as u64) as usize;
                    if a == b {
                        continue;
                    }
                    let (x, y) = if all[a].0 <= all[b].0 { (&all[a], &all[b]) } else { (&all[b], &all[a]) };
                    // the second call was built for H's chain at its position, which a *failed* first call must not change
                    if check_insertions(c, &base, &[(x.0, x.1.clone(), x.2.to_string()), (y.0, y.1.clone(), y.2.to_string())], st).map_err(|f| Fail::new(&f.clause, format!("[{} + {}] {}", x.3, y.3, f.detail)))? {
                        judged += 1;
                        st.inc("fault_pairs");
                    }
                }
            }
            // repetition: the same rejected call many times over at one place of one history (whatever a rejected call leaves
            // behind in the writer's own state adds up)
            if !all.is_empty() && ir.chance(1, 6) {
                let x = &all[ir.below(all.len() as u64) as usize];
                let times = *ir.pick(&[3usize, 40, 70, 130, 300]);
                let many: Vec<(usize, WOp, String)> = (0..times).map(|_| (x.0, x.1.clone(), x.2.to_string())).collect();
                if check_insertions(c, &base, &many, st).map_err(|f| Fail::new(&f.clause, format!("[{} x{}] {}", x.3, times, f.detail)))? {
                    judged += 1;
                    st.inc("fault_repeated_rejections");
                }
            }
        }
        st.add("failing_calls_judged", judged);
        Ok(ExecOk { nontrivial: judged > 0 && c.ops.len() >= 2 })
    }

    fn fingerprint(&self, c: &Case) -> u64 {
        let mut f = Fp::default();
        wcases::fp_ops(&mut f, &c.ops);
        f.u(c.iseed);
        for (p, o, _) in &c.insertions {
            f.u(*p as u64).s(&o.short());
        }
        for e in &c.spec.elems {
            f.u(e.id).u(e.ty as u64);
        }
        f.0
    }

    fn to_j(&self, c: &Case) -> J {
        json!({
            "spec": c.spec.to_j(), "ops": wcases::ops_to_j(&c.ops), "wscript": c.wscript.to_j(), "iseed": c.iseed,
            "insertions": c.insertions.iter().map(|(p, o, k)| json!({"before_call": p, "call": o.to_j(), "expect": k})).collect::<Vec<_>>(),
        })
    }

    fn from_j(&self, j: &J) -> Result<Case, String> {
        let mut insertions = Vec::new();
        for i in j.get("insertions").and_then(|v| v.as_array()).ok_or("insertions")? {
            insertions.push((i.get("before_call").and_then(|v| v.as_u64()).ok_or("before_call")? as usize, WOp::from_j(i.get("call").ok_or("call")?)?, i.get("expect").and_then(|v| v.as_str()).ok_or("expect")?.to_string()));
        }
        Ok(Case { spec: SpecTable::from_j(j.get("spec").ok_or("spec")?)?, ops: wcases::ops_from_j(j.get("ops").ok_or("ops")?)?, wscript: WScript::from_j(j.get("wscript").ok_or("wscript")?)?, insertions, iseed: j.get("iseed").and_then(|v| v.as_u64()).unwrap_or(0) })
    }

    fn shrink(&self, c: &Case) -> Vec<Case> {
        let mut v = Vec::new();
        if c.insertions.is_empty() {
            // pin the failing insertion
            let mut ir = Rng::new(c.iseed);
            let mut all: Vec<(usize, WOp, String)> = Vec::new();
            for p in 0..=c.ops.len() {
                for (op, kind, _) in failing_calls(&mut ir, &c.spec, &c.ops, p) {
                    all.push((p, op, kind.to_string()));
                }
                if let Some(m) = wcases::open_after(&c.ops[..p]).last() {
                    all.push((p, WOp::Write(TagV::new(m.id, Val::End), Opt::Default), "TagSizeError".to_string()));
                }
            }
            for x in &all {
                v.push(Case { insertions: vec![x.clone()], ..c.clone() });
            }
            for a in 0..all.len().min(40) {
                for b in a + 1..all.len().min(40) {
                    v.push(Case { insertions: vec![all[a].clone(), all[b].clone()], ..c.clone() });
                }
            }
            return v;
        }
        if c.insertions.len() > 1 {
            for i in 0..c.insertions.len() {
                v.push(Case { insertions: vec![c.insertions[i].clone()], ..c.clone() });
            }
        }
        if c.wscript != WScript::default() {
            v.push(Case { wscript: WScript::default(), ..c.clone() });
        }
        // drop calls of H after / before the insertion (positions shift accordingly)
        if c.insertions.len() == 1 {
            let (p, op, k) = &c.insertions[0];
            if *p < c.ops.len() {
                v.push(Case { ops: c.ops[..*p].to_vec(), ..c.clone() });
                for cut in (*p + 1..c.ops.len()).rev() {
                    v.push(Case { ops: c.ops[..cut].to_vec(), ..c.clone() });
                }
            }
            // remove matched ranges and single leaf calls that lie entirely before or after p
            for cand in wcases::shrink_ops(&c.ops) {
                if cand.len() < c.ops.len() {
                    let removed = c.ops.len() - cand.len();
                    // where was the removal? find the first differing index
                    let first = c.ops.iter().zip(cand.iter()).position(|(a, b)| a != b).unwrap_or(cand.len());
                    if first >= *p {
                        v.push(Case { ops: cand, ..c.clone() });
                    } else if first + removed <= *p {
                        v.push(Case { ops: cand, insertions: vec![(*p - removed, op.clone(), k.clone())], ..c.clone() });
                    }
                } else {
                    v.push(Case { ops: cand, ..c.clone() });
                }
            }
        }
        v
    }

    fn rule(&self) -> &'static str {
        "One case = specification + valid writer call history H; at EVERY position of H one failing call of each applicable kind is inserted (tag not allowed here; payload too long for the requested size width, also via a raw tag; End of a master whose content does not fit the width requested at its Start; unknown size on a non-master, both APIs; raw tag with malformed id; End of a master that is not the innermost open one / nothing open; Full master with an invalid child at some depth and position; Full master whose own End is rejected because its content does not fit the requested width or because it contains a Start that is never closed), one at a time plus a few pairs, and in one history of six one of them repeated 3 to 300 times at the same place. Differential on the real writer: each inserted call is rejected (with whatever non-I/O error), every original call returns what it returned in H, and into_inner() gives the same kind of result and, when it succeeds, the same bytes (delivery timing after each call is counted, not judged: it is C10's subject). Non-trivial: at least one failing call was judged in a history of at least 2 calls. 'evaluations' counts histories; judged insertions are in counters.failing_calls_judged."
    }
    fn assumptions(&self) -> Vec<&'static str> {
        vec![
            "calls built to fail that the writer accepts are not judged here: hierarchy acceptance is C11's subject, width boundary cases are left open by the property",
            "for the End-too-narrow kind H itself ends with a failing into_inner(); then per-call results and delivered bytes are what is compared",
        ]
    }
    fn expected_probes(&self) -> Vec<&'static str> {
        vec!["fault_not_allowed_here", "fault_size_not_representable", "fault_raw_size_not_representable", "fault_unknown_size_on_non_master", "fault_malformed_raw_id", "fault_mismatched_end", "fault_full_with_invalid_child", "fault_full_too_narrow", "fault_full_with_unclosed_start", "fault_end_too_narrow", "fault_pairs", "probe_base_with_failing_into_inner"]
    }
}
