//! C04 — parse result independent of read chunking, buffer capacity and EOF pauses.
//! Differential: the same bytes and configuration from a slice vs. through the scripted source.

use std::sync::Arc;

use serde_json::{json, Value as J};

use crate::cases::{self, InputOpts, ReadCase};
use crate::fail;
use crate::gen::{FaultStats, SpecOpts};
use crate::harness::{run_reader, Driver, Ev, IterCfg, MaxSz, RTrace, ReaderSetup};
use crate::io::{self, Fault, RScript};
use crate::rng::Rng;
use crate::runner::{Check, ExecOk, Fail, Stats, Tier};

pub struct C04;

#[derive(Clone, Debug)]
pub struct Case {
    pub rc: ReadCase,
    /// None = the single (capacity, script) in `rc`; otherwise a systematic sweep over the input
    pub sweep: Option<Sweep>,
}

#[derive(Clone, Debug, PartialEq, Eq)]
pub enum Sweep {
    /// every uniform chunk size 1..=17, every single split position, every capacity 0..=min(len,40)+1
    Standard,
    /// all 2^(len-1) compositions (len ≤ 12)
    AllCompositions,
}

fn reference(rc: &ReadCase) -> RTrace {
    let mut cfg = rc.cfg.clone();
    cfg.capacity = None;
    let n = rc.input.len();
    run_reader(&rc.spec, &ReaderSetup { input: rc.input.clone(), virtual_tail: 0, cfg: &cfg, script: &RScript::whole(), driver: &Driver::UntilEnd { extra: 0 }, max_steps: 4 * n + 64, keep_read_log: false })
}

fn subject(rc: &ReadCase) -> RTrace {
    let n = rc.input.len();
    run_reader(&rc.spec, &ReaderSetup { input: rc.input.clone(), virtual_tail: 0, cfg: &rc.cfg, script: &rc.script, driver: &rc.driver, max_steps: 8 * n + 128, keep_read_log: true })
}

fn strip_none(evs: &[Ev]) -> Vec<&Ev> {
    evs.iter().filter(|e| !matches!(e, Ev::None)).collect()
}


/// Offsets at which a temporary end of file is within the property's scope for this case: every
/// tag boundary, as the unbuffered slice run sees them (so also boundaries inside buffered masters).
fn pause_boundaries(rc: &ReadCase) -> Vec<usize> {
    let mut unb = rc.clone();
    unb.cfg.buffered.clear();
    unb.cfg.eof_end = false;
    let r = reference(&unb);
    r.ok_prefix().iter().filter(|(t, o)| !t.is_end() && *o > 0).map(|(_, o)| *o).collect()
}

/// Compares one scheduled run with the reference.
fn compare(rc: &ReadCase, refr: &RTrace, walked: Option<&Vec<crate::refdec::Walked>>, st: &mut Stats) -> Result<(), Fail> {
    if !rc.script.pauses.is_empty() {
        // scope of the property: temporary EOF only with end-of-stream closing disabled and only at
        // tag boundaries. Anything else is out of scope (this matters for shrunk cases, which must
        // stay inside the property's quantifier).
        let bounds = pause_boundaries(rc);
        if rc.cfg.eof_end || rc.script.pauses.iter().any(|p| !bounds.contains(p)) || !matches!(rc.driver, Driver::Streaming { .. }) {
            st.inc("out_of_scope");
            return Ok(());
        }
    }
    let sub = subject(rc);
    st.add("api_calls", sub.api_calls as u64);
    st.add("read_calls", sub.read_calls as u64);
    st.add("fault_short_reads", sub.rstats.short_reads);
    st.add("fault_one_byte_reads", sub.rstats.one_byte_reads);
    st.add("fault_pauses_delivered", sub.rstats.pauses);
    st.add("fault_interrupted_delivered", sub.rstats.interrupted);
    // probes, observed from outside: compaction (a read offered less than the capacity after
    // earlier bytes were consumed) and growth (a read offered more than the initial capacity)
    let cap = rc.cfg.capacity.unwrap_or(65536);
    if sub.reads.iter().any(|r| r.buf_len < cap && r.pos_before > 0 && r.buf_len > 0) {
        st.inc("probe_partial_refill");
    }
    if sub.rstats.max_buf_offered > cap {
        st.inc("probe_buffer_grew");
    }
    // schedule class reached by this run: the set of (phase, depth, innermost master kind) at which
    // a read ended, plus capacity class and which special events were delivered (DESIGN section 7)
    {
        if let Some(walked) = walked {
            let mut set: Vec<(u8, u8, u8)> = Vec::new();
            for r in &sub.reads {
                if let crate::io::ROut::Data(n) = r.out {
                    let b = r.pos_before + n;
                    if b < rc.input.len() {
                        let c = crate::refdec::phase_at(walked, b);
                        if !set.contains(&c) {
                            set.push(c);
                        }
                    }
                }
            }
            set.sort();
            let mut f = crate::runner::Fp::default();
            for (a, b, c) in &set {
                f.u(*a as u64 | (*b as u64) << 8 | (*c as u64) << 16);
                st.inc(match a {
                    0 => "probe_read_ends_on_tag_boundary",
                    1 => "probe_read_ends_inside_id",
                    2 => "probe_read_ends_inside_size_field",
                    3 => "probe_read_ends_inside_payload",
                    _ => "probe_read_ends_beyond_parsed_region",
                });
            }
            let largest = walked.iter().filter(|w| !w.tag.is_end()).map(|w| w.hdr_len + w.size.unwrap_or(0) as usize).max().unwrap_or(0);
            let capc = match rc.cfg.capacity {
                None => 0u64,
                Some(c) if c < 16 => 1,
                Some(c) if c < largest => 2,
                Some(c) if c < rc.input.len() => 3,
                Some(_) => 4,
            };
            f.u(capc).u((sub.rstats.pauses > 0) as u64).u((sub.rstats.interrupted > 0) as u64).u(refr.first_error().is_some() as u64);
            st.class(f.0);
        }
    }
    if sub.budget_exceeded || sub.step_cap_hit {
        fail!("livelock", "the scheduled run exceeded its call budget (read calls {}, api calls {}); reference ended after {} events", sub.read_calls, sub.api_calls, refr.evs.len());
    }
    if refr.panic().is_some() {
        // totality is C05's business; nothing to compare against
        st.inc("skipped_reference_panics");
        return Ok(());
    }
    if let Some(p) = sub.panic() {
        fail!("panic-under-schedule", "the slice run does not panic but the scheduled run does: {}\n reference: {}", p, refr.short(12));
    }
    let interrupted = rc.script.faults.iter().any(|(_, f)| matches!(f, Fault::Interrupted));
    let a = strip_none(&refr.evs);
    let b = strip_none(&sub.evs);
    if interrupted && sub.rstats.interrupted > 0 {
        // either retried transparently (equal) or surfaced once as a ReadError{Interrupted},
        // everything before it equal
        if let Some(k) = b.iter().position(|e| matches!(e, Ev::Err(crate::val::ErrV::Read { kind, .. }) if kind == "Interrupted")) {
            st.inc("interrupted_surfaced");
            if a.len() < k || a[..k] != b[..k] {
                fail!("prefix-before-interrupted", "items before the surfaced Interrupted error differ from the slice run\n reference: {}\n subject:   {}", refr.short(40), sub.short(40));
            }
            return Ok(());
        }
        st.inc("interrupted_retried");
    }
    if !rc.cfg.eof_end && !rc.script.pauses.is_empty() {
        st.inc("paused_runs");
        if !rc.cfg.buffered.is_empty() {
            st.inc("probe_paused_runs_with_buffered_masters");
        }
    }
    if a != b {
        let k = a.iter().zip(b.iter()).take_while(|(x, y)| x == y).count();
        fail!(
            "differs-from-slice",
            "event {} differs: slice run gives {} but scheduled run gives {}\n reference: {}\n subject:   {}",
            k,
            a.get(k).map(|e| e.short()).unwrap_or("<end>".into()),
            b.get(k).map(|e| e.short()).unwrap_or("<end>".into()),
            refr.short(60),
            sub.short(60)
        );
    }
    // termination must agree too: a clean end is a None, an error is an error
    let ra = matches!(refr.evs.last(), Some(Ev::None));
    let rb = matches!(sub.evs.last(), Some(Ev::None));
    if ra != rb {
        fail!("termination-differs", "slice run ends with {:?}, scheduled run with {:?}", refr.evs.last().map(|e| e.short()), sub.evs.last().map(|e| e.short()));
    }
    Ok(())
}

fn sweep_cases(c: &Case) -> Vec<ReadCase> {
    let n = c.rc.input.len();
    let mut v = Vec::new();
    match c.sweep {
        None => {}
        Some(Sweep::Standard) => {
            for k in 1..=17usize {
                let mut r = c.rc.clone();
                r.script = RScript::dribble(k);
                v.push(r);
            }
            for pos in 1..n {
                let mut r = c.rc.clone();
                r.script = RScript { chunks: vec![pos], ..Default::default() };
                v.push(r);
            }
            for cap in 0..=(n.min(40) + 1) {
                let mut r = c.rc.clone();
                r.cfg.capacity = Some(cap);
                v.push(r);
            }
        }
        Some(Sweep::AllCompositions) => {
            if n >= 1 && n <= 12 {
                for mask in 0..(1u32 << (n - 1)) {
                    let mut chunks = Vec::new();
                    let mut run = 1;
                    for i in 0..n - 1 {
                        if mask & (1 << i) != 0 {
                            chunks.push(run);
                            run = 1;
                        } else {
                            run += 1;
                        }
                    }
                    chunks.push(run);
                    let mut r = c.rc.clone();
                    r.script = RScript { chunks, ..Default::default() };
                    v.push(r);
                }
            }
        }
    }
    v
}

impl Check for C04 {
    type Case = Case;
    fn id(&self) -> &'static str {
        "C04"
    }
    fn num(&self) -> u64 {
        4
    }
    fn level(&self) -> &'static str {
        "exploration"
    }
    fn runs(&self, tier: Tier) -> u64 {
        match tier {
            Tier::Quick => 400_000,
            Tier::Thorough => 12_000_000,
        }
    }

    fn gen(&self, seed: u64, spec_seed: u64, tier: Tier) -> Case {
        let mut rng = Rng::new(seed);
        let spec = cases::spec_for(spec_seed, &SpecOpts::default());
        let mut fs = FaultStats::default();
        let mode = rng.below(100);
        let mut doc = cases::doc_opts_for(tier, &mut rng);
        let sweep = if mode < 6 {
            Some(Sweep::Standard)
        } else if mode < 9 {
            Some(Sweep::AllCompositions)
        } else {
            None
        };
        if sweep.is_some() {
            doc.max_nodes = if sweep == Some(Sweep::AllCompositions) { 3 } else { 10 };
            doc.pay.max_len = 24;
            doc.pay.boundary_pct = 0;
        }
        let io = InputOpts { doc, faulted_pct: 25, truncated_pct: 15, random_pct: 5, soup_pct: 5, max_faults: 3, mid_document_pct: 8 };
        let mut gi = cases::gen_input(&mut rng, &spec, &io, &mut fs);
        if sweep == Some(Sweep::AllCompositions) {
            gi.bytes.truncate(12);
        } else if sweep == Some(Sweep::Standard) {
            gi.bytes.truncate(300);
        }
        let valid = gi.class == "valid";
        let mut cfg = IterCfg::default();
        cfg.allow = cases::gen_allow(&mut rng, 50);
        cfg.buffered = cases::gen_buffered(&mut rng, &spec, 20);
        cfg.max_size = if valid && rng.chance(1, 2) { if rng.chance(1, 4) { MaxSz::Unlimited } else { MaxSz::Default } } else { MaxSz::Limit(*rng.pick(&[8usize, 64, 1000, 70_000, 1 << 20])) };
        let input = Arc::new(gi.bytes);
        let mut rc = ReadCase { spec, input, cfg, script: RScript::whole(), driver: Driver::UntilEnd { extra: 0 }, class: gi.class };
        if sweep.is_none() {
            // boundaries as the parser sees them, for boundary-biased splits and for pauses
            let refr = reference(&rc);
            let items = refr.ok_prefix();
            let bounds = cases::item_boundaries(&items, rc.input.len());
            rc.cfg.capacity = io::gen_capacity(&mut rng, rc.input.len());
            crate::harness::gen_cfg_history(&mut rng, &mut rc.cfg);
            rc.script = io::gen_rscript(&mut rng, rc.input.len(), &bounds);
            if rc.input.len() > 20_000 && rng.chance(1, 2) {
                // long streams: buffers of a few KiB up to the default, reads of a few thousand bytes (neither tiny nor whole)
                rc.cfg.capacity = *rng.pick(&[None, None, Some(4096), Some(8192), Some(20_000), Some(32_768)]);
                let lo = *rng.pick(&[1000usize, 3000, 5000]);
                let mut total = 0;
                rc.script.chunks.clear();
                while total < rc.input.len() && rc.script.chunks.len() < 4096 {
                    let k = rng.range(lo, 3 * lo);
                    rc.script.chunks.push(k);
                    total += k;
                }
                rc.script.rest = 0;
            }
            let sub = rng.below(10);
            if sub == 0 {
                // Interrupted sub-batch
                let calls = rng.range(1, 3);
                for _ in 0..calls {
                    rc.script.faults.push((rng.range(0, 12), Fault::Interrupted));
                }
            } else if sub <= 3 {
                // EOF pauses at tag boundaries with end-of-stream closing disabled
                rc.cfg.eof_end = false;
                rc.driver = Driver::Streaming { extra: 0 };
                let pb = pause_boundaries(&rc);
                for b in &pb {
                    if *b > 0 && *b < rc.input.len() && rng.chance(1, 3) {
                        for _ in 0..rng.range(1, 3) {
                            rc.script.pauses.push(*b);
                        }
                    }
                }
            }
        }
        Case { rc, sweep }
    }

    fn exec(&self, c: &Case, st: &mut Stats) -> Result<ExecOk, Fail> {
        let refr = reference(&c.rc);
        st.inc(match c.rc.class {
            "valid" => "input_valid",
            "byte-faulted" => "input_byte_faulted",
            "truncated" => "input_truncated",
            "random" => "input_random",
            "header-soup" => "input_header_soup",
            _ => "input_replayed",
        });
        if !c.rc.cfg.eof_end && refr.panic().is_none() {
            // Disabling end-of-stream closing may only remove closing Ends. First without buffering:
            // the disabled run is the default run minus a suffix of End items. Those are the
            // suppressed Ends; an End item carries its master's start offset, which identifies it.
            let mut u_def = c.rc.clone();
            u_def.cfg.eof_end = true;
            u_def.cfg.buffered.clear();
            let mut u_dis = u_def.clone();
            u_dis.cfg.eof_end = false;
            let (ud, ux) = (reference(&u_def), reference(&u_dis));
            if ud.panic().is_none() && ux.panic().is_none() {
                let a = strip_none(&ud.evs);
                let b = strip_none(&ux.evs);
                if b.len() > a.len() || a[..b.len()] != b[..] || !a[b.len()..].iter().all(|e| matches!(e, Ev::Tag(t, _) if t.is_end())) {
                    fail!("eof-closing-switch", "with end-of-stream closing disabled the slice run is not the default run minus closing Ends\n default:  {}\n disabled: {}", ud.short(60), ux.short(60));
                }
                if !c.rc.cfg.buffered.is_empty() && ud.first_error().is_none() {
                    // With buffered masters: a Full whose master only the end of input closes cannot be
                    // completed (its End is one of the suppressed ones), so the run stops in front of it —
                    // normally, without an error; everything else is as in the default run.
                    let suppressed: Vec<(u64, usize)> = a[b.len()..].iter().filter_map(|e| if let Ev::Tag(t, o) = e { Some((t.id, *o)) } else { None }).collect();
                    let mut b_def = c.rc.clone();
                    b_def.cfg.eof_end = true;
                    let bd = reference(&b_def);
                    let mut want: Vec<Ev> = Vec::new();
                    for e in strip_none(&bd.evs) {
                        match e {
                            Ev::Tag(t, o) if t.is_end() && suppressed.contains(&(t.id, *o)) => {}
                            Ev::Tag(t, o) if t.is_full() && suppressed.contains(&(t.id, *o)) => break,
                            other => want.push(other.clone()),
                        }
                    }
                    let got: Vec<Ev> = strip_none(&refr.evs).into_iter().cloned().collect();
                    if bd.panic().is_none() && got != want {
                        fail!("eof-closing-switch-buffered", "with end-of-stream closing disabled and buffered masters {:x?} the slice run should be the default run minus the suppressed Ends {:x?} and minus Full masters that only the end of input closes\n default:  {}\n disabled: {}", c.rc.cfg.buffered, suppressed, bd.short(60), refr.short(60));
                    }
                    st.inc("probe_eof_switch_with_buffered_masters");
                }
            }
        }
        let walked = if c.rc.input.len() <= 600 {
            let tags: Vec<crate::val::TagV> = crate::val::flatten(&refr.ok_prefix().into_iter().map(|(t, _)| t).collect::<Vec<_>>());
            crate::refdec::walk(&c.rc.spec, &c.rc.input, &tags, 0).ok().map(|w| w.0)
        } else {
            None
        };
        match &c.sweep {
            None => {
                compare(&c.rc, &refr, walked.as_ref(), st)?;
                st.inc("schedules");
            }
            Some(_) => {
                let subs = sweep_cases(c);
                st.inc("sweeps");
                for rc in subs {
                    st.inc("schedules");
                    if let Err(f) = compare(&rc, &refr, walked.as_ref(), st) {
                        return Err(Fail::new(&f.clause, format!("[sweep member: capacity {:?}, script {}] {}", rc.cfg.capacity, rc.script.to_j(), f.detail)));
                    }
                }
            }
        }
        let nontrivial = !c.rc.input.is_empty() && refr.evs.len() > 1 && (c.sweep.is_some() || !c.rc.script.is_whole() || c.rc.cfg.capacity.map(|k| k < c.rc.input.len()).unwrap_or(false));
        Ok(ExecOk { nontrivial })
    }

    fn fingerprint(&self, c: &Case) -> u64 {
        c.rc.fingerprint() ^ match c.sweep {
            None => 0,
            Some(Sweep::Standard) => 0x1111,
            Some(Sweep::AllCompositions) => 0x2222,
        }
    }

    fn to_j(&self, c: &Case) -> J {
        let mut j = c.rc.to_j();
        j["sweep"] = match c.sweep {
            None => J::Null,
            Some(Sweep::Standard) => json!("standard"),
            Some(Sweep::AllCompositions) => json!("all-compositions"),
        };
        j
    }

    fn from_j(&self, j: &J) -> Result<Case, String> {
        let rc = ReadCase::from_j(j)?;
        let sweep = match j.get("sweep").and_then(|s| s.as_str()) {
            Some("standard") => Some(Sweep::Standard),
            Some("all-compositions") => Some(Sweep::AllCompositions),
            _ => None,
        };
        Ok(Case { rc, sweep })
    }

    fn shrink(&self, c: &Case) -> Vec<Case> {
        if c.sweep.is_some() {
            // first reduce the sweep to the member that fails
            return sweep_cases(c).into_iter().map(|rc| Case { rc, sweep: None }).collect();
        }
        c.rc.shrink(true).into_iter().map(|rc| Case { rc, sweep: None }).collect()
    }

    fn rule(&self) -> &'static str {
        "One case = specification + input bytes (valid / byte-faulted / truncated / random / header soup) + iterator configuration + one delivery schedule (chunk sizes, capacity, EOF pauses, Interrupted) or a systematic sweep (chunk sizes 1-17, every split position, every capacity 0..min(len,40)+1; all 2^(len-1) compositions for inputs of at most 12 bytes). Non-trivial: input non-empty, the slice run yields at least one item, and the schedule is not the whole-input read (or the capacity is below the input length). Distinct: FNV-1a fingerprint of bytes + configuration + schedule."
    }

    fn assumptions(&self) -> Vec<&'static str> {
        vec![
            "the reference is the real iterator over the same bytes delivered in one read with default capacity; a defect that is independent of the schedule is not visible here (C03/C06/C12 look at those)",
            "EOF pauses are placed at tag boundaries as seen by the unbuffered slice run, including boundaries inside buffered masters (the buffered iterator then returns None and carries on when more data arrives)",
            "hostile declared sizes are capped by a 1 MiB tag-size limit on non-valid inputs (memory is C17's subject)",
        ]
    }

    fn expected_probes(&self) -> Vec<&'static str> {
        vec!["probe_partial_refill", "probe_buffer_grew", "fault_pauses_delivered", "fault_interrupted_delivered", "sweeps", "paused_runs", "probe_paused_runs_with_buffered_masters", "probe_eof_switch_with_buffered_masters"]
    }
}
