//! C12 — truncation at every byte: the complete prefix, then an accurate end-of-file error.
//! Fault enumeration: every cut position of each generated document; the expectation comes from
//! the reference encoder's layout, not from any parse.

use std::sync::Arc;

use serde_json::{json, Value as J};

use crate::cases;
use crate::enc::{self, Encoded, Node};
use crate::fail;
use crate::gen::{self, SpecOpts};
use crate::harness::{run_reader, Driver, Ev, IterCfg, ReaderSetup};
use crate::io::{self, RScript};
use crate::rng::Rng;
use crate::runner::{Check, ExecOk, Fail, Fp, Stats, Tier};
use crate::spec::SpecTable;
use crate::val::{ErrV, TagV};

pub struct C12;

#[derive(Clone, Debug)]
pub struct Case {
    pub spec: SpecTable,
    pub doc: Vec<Node>,
    /// None = every cut position 0..=len
    pub cut: Option<usize>,
    /// schedules tried per cut besides the slice run
    pub variants: Vec<(Option<usize>, RScript)>,
    /// Some(k): the size limit is set to the largest declared size in the document plus k (everything stays within
    /// the limit, the largest element only just); None: the default limit
    pub limit_slack: Option<usize>,
    /// seed for per-cut schedule draws when `variants` is empty
    pub vseed: u64,
}

/// What the layout says a strict parse of `bytes[..cut]` must produce.
struct Expect {
    mandatory: Vec<TagV>,
    /// Ends of unknown-size masters implied only by the incomplete tag: a prefix of these may follow
    optional: Vec<TagV>,
    /// None = clean end after `mandatory` (which then includes the closing Ends)
    err: Option<ErrV>,
}

fn expectation(e: &Encoded, cut: usize) -> Expect {
    let lay = &e.layout;
    // first incomplete element in document order
    let x = lay.elems.iter().position(|el| if el.is_master { el.data_start() > cut } else { el.end > cut });
    match x {
        None => Expect { mandatory: e.items.clone(), optional: vec![], err: None },
        Some(xi) => {
            let el = &lay.elems[xi];
            let before: Vec<TagV> = e.items[..el.item].to_vec();
            if el.off == cut {
                // cut on a tag boundary: everything before, then Ends of all masters still open
                let mut m = before;
                let mut open: Vec<u64> = Vec::new();
                for t in &m {
                    if t.is_start() {
                        open.push(t.id);
                    } else if t.is_end() {
                        open.pop();
                    }
                }
                while let Some(id) = open.pop() {
                    m.push(TagV::new(id, crate::val::Val::End));
                }
                return Expect { mandatory: m, optional: vec![], err: None };
            }
            // trailing Ends right before X: those up to the last known-size master are certain
            // (closed by exhaustion); Ends of unknown-size masters after that are implied by X only
            let mut k = before.len();
            while k > 0 && before[k - 1].is_end() {
                k -= 1;
            }
            let trailing = &before[k..];
            // which of the trailing Ends belong to known-size masters: look the masters up in the layout
            let mut certain = 0;
            for (j, t) in trailing.iter().enumerate() {
                let item_idx = k + j;
                let m = lay.elems.iter().find(|m| m.is_master && m.end_item == item_idx).expect("layout: End item without master");
                debug_assert_eq!(m.id, t.id);
                if m.size.is_some() {
                    certain = j + 1;
                }
            }
            let mandatory = before[..k + certain].to_vec();
            let optional = before[k + certain..].to_vec();
            let id_complete = cut >= el.off + el.id_len;
            let hdr_complete = cut >= el.data_start();
            let err = ErrV::Eof {
                start: el.off,
                id: if id_complete { Some(el.id) } else { None },
                size: if hdr_complete { el.size.map(|s| s as usize) } else { None },
                partial: if hdr_complete && !el.is_master { Some(e.bytes[el.data_start()..cut].to_vec()) } else { None },
            };
            Expect { mandatory, optional, err: Some(err) }
        }
    }
}

fn eof_equal(want: &ErrV, got: &ErrV) -> bool {
    match (want, got) {
        (ErrV::Eof { start: a, id: b, size: c, partial: d }, ErrV::Eof { start: a2, id: b2, size: c2, partial: d2 }) => {
            // absent and empty partial data are identified when no payload byte is present
            let norm = |p: &Option<Vec<u8>>| p.clone().filter(|v| !v.is_empty());
            a == a2 && b == b2 && c == c2 && norm(d) == norm(d2)
        }
        _ => false,
    }
}

fn check_cut(spec: &SpecTable, e: &Encoded, cut: usize, cap: Option<usize>, limit: Option<usize>, script: &RScript, st: &mut Stats) -> Result<(), Fail> {
    let input = Arc::new(e.bytes[..cut].to_vec());
    let cfg = IterCfg { capacity: cap, max_size: limit.map_or(crate::harness::MaxSz::Default, crate::harness::MaxSz::Limit), ..Default::default() };
    let tr = run_reader(spec, &ReaderSetup { input, virtual_tail: 0, cfg: &cfg, script, driver: &Driver::UntilEnd { extra: 0 }, max_steps: 4 * cut + 64, keep_read_log: false });
    st.add("api_calls", tr.api_calls as u64);
    st.add("read_calls", tr.read_calls as u64);
    st.inc("truncations_injected");
    let exp = expectation(e, cut);
    let ctx = |tr: &crate::harness::RTrace| format!("cut at {} of {} bytes, capacity {:?}, size limit {:?}, script {}\n trace: {}", cut, e.bytes.len(), cap, limit, script.to_j(), tr.short(60));
    if let Some(p) = tr.panic() {
        fail!("panic", "panicked: {}; {}", p, ctx(&tr));
    }
    let got: Vec<TagV> = tr.ok_prefix().into_iter().map(|(t, _)| t).collect();
    let m = exp.mandatory.len();
    if got.len() < m || got[..m] != exp.mandatory[..] {
        let k = got.iter().zip(exp.mandatory.iter()).take_while(|(a, b)| a == b).count();
        fail!("prefix", "item {}: expected {} but got {}; {}", k, exp.mandatory.get(k).map(|t| t.short()).unwrap_or("<error/end>".into()), got.get(k).map(|t| t.short()).unwrap_or("<error/end>".into()), ctx(&tr));
    }
    let extra = &got[m..];
    if extra.len() > exp.optional.len() || extra != &exp.optional[..extra.len()] {
        fail!("prefix", "after the {} expected items the parse emitted {:?}, allowed there: a prefix of {:?}; {}", m, extra.iter().map(|t| t.short()).collect::<Vec<_>>(), exp.optional.iter().map(|t| t.short()).collect::<Vec<_>>(), ctx(&tr));
    }
    if !extra.is_empty() {
        st.inc("probe_optional_ends_emitted");
    }
    match (&exp.err, tr.evs.last()) {
        (None, Some(Ev::None)) => {
            st.inc("probe_cut_on_boundary");
            Ok(())
        }
        (None, other) => fail!("clean-end-expected", "the cut is on a tag boundary, expected closing Ends and normal termination but the parse ended with {:?}; {}", other.map(|e| e.short()), ctx(&tr)),
        (Some(want), Some(Ev::Err(got_e))) => {
            if got_e.is_corruption() {
                fail!("corruption-reported", "a merely truncated file was reported as {}; expected {}; {}", got_e.short(), want.short(), ctx(&tr));
            }
            if !eof_equal(want, got_e) {
                fail!("eof-fields", "expected {} but got {}; {}", want.short(), got_e.short(), ctx(&tr));
            }
            match want {
                ErrV::Eof { id: None, .. } => st.inc("probe_cut_inside_id"),
                ErrV::Eof { size: None, .. } => st.inc("probe_cut_inside_size"),
                _ => st.inc("probe_cut_inside_payload"),
            }
            Ok(())
        }
        (Some(want), other) => fail!("eof-error-expected", "expected {} but the parse ended with {:?}; {}", want.short(), other.map(|e| e.short()), ctx(&tr)),
    }
}

impl Check for C12 {
    type Case = Case;
    fn id(&self) -> &'static str {
        "C12"
    }
    fn num(&self) -> u64 {
        12
    }
    fn level(&self) -> &'static str {
        "fault_enumeration"
    }
    fn runs(&self, tier: Tier) -> u64 {
        match tier {
            Tier::Quick => 200_000,
            Tier::Thorough => 6_000_000,
        }
    }

    fn gen(&self, seed: u64, spec_seed: u64, tier: Tier) -> Case {
        let mut rng = Rng::new(seed);
        let spec = cases::spec_for(spec_seed, &SpecOpts::default());
        let mut o = cases::doc_opts_for(tier, &mut rng);
        o.pay.max_len = *rng.pick(&[8usize, 24, 24, 130]);
        o.max_nodes = *rng.pick(&[2usize, 5, 12, 25]);
        let mut doc = gen::gen_doc(&mut rng, &spec, &o);
        if rng.chance(1, 150) {
            // a long document: two or three binary elements larger than the default buffer, of different sizes, next to
            // each other, appended to the first root master when that keeps the document unambiguous (cuts are then
            // sampled, see exec)
            let sizes = [65_530usize, 65_537, 70_000, 90_000, 131_073];
            if let Some(root) = doc.iter_mut().find(|n| n.is_master()) {
                let ids: Vec<u64> = spec.elems.iter().filter(|e| e.ty == crate::spec::Ty::Bin && !e.has_global() && spec.allowed(e.id, &[root.id])).map(|e| e.id).collect();
                let last_is_open = root.children().last().map_or(false, |n| n.is_master() && n.enc.unknown);
                if !ids.is_empty() && !last_is_open {
                    if let enc::Body::Master(cs) = &mut root.body {
                        for _ in 0..rng.range(2, 3) {
                            let l = *rng.pick(&sizes);
                            cs.push(enc::Node::leaf(*rng.pick(&ids), crate::val::Val::B(vec![0x5a; l])));
                        }
                    }
                    root.visit_mut(&mut |x| x.enc.size_w = 0);
                }
            }
        }
        Case { spec, doc, cut: None, variants: vec![], vseed: rng.next(), limit_slack: if rng.chance(1, 3) { Some(rng.range(0, 2)) } else { None } }
    }

    fn exec(&self, c: &Case, st: &mut Stats) -> Result<ExecOk, Fail> {
        if crate::checks::c07::ambiguous(&c.spec, &c.doc) {
            // the placements the properties exclude (matters for shrunk documents only: the generator avoids them)
            st.inc("out_of_scope_ambiguous");
            return Ok(ExecOk { nontrivial: false });
        }
        let e = enc::encode(&c.doc);
        let len = e.bytes.len();
        let cuts: Vec<usize> = match c.cut {
            Some(k) => vec![k.min(len)],
            None if len <= 3000 => (0..=len).collect(),
            // a long document: every cut within 20 bytes of a tag boundary or of a multiple of 64 KiB (where buffers
            // wrap), plus a drawn sample, instead of all of them
            None => {
                let mut cr = Rng::new(c.vseed ^ 0xC075);
                let mut v: Vec<usize> = Vec::new();
                let mut marks: Vec<usize> = Vec::new();
                for x in e.layout.elems.iter().filter(|x| !x.is_master && x.size.map_or(false, |s| s > 60_000)) {
                    marks.extend([x.off, x.data_start(), x.end]);
                }
                marks.extend((1..=len / 65536).map(|k| k * 65536));
                for m in marks {
                    for d in [0usize, 1, 3, 17] {
                        v.push(m.saturating_sub(d));
                        v.push((m + d).min(len));
                    }
                }
                for _ in 0..12 {
                    v.push(cr.range(0, len));
                }
                v.sort();
                v.dedup();
                v
            }
        };
        st.add("documents", 1);
        st.add("elements", e.layout.elems.len() as u64);
        let mut vr = Rng::new(c.vseed);
        let bounds = e.layout.boundaries(len);
        let limit = c.limit_slack.map(|k| e.layout.elems.iter().filter_map(|x| x.size).max().unwrap_or(0) as usize + k);
        if limit.is_some() {
            st.inc("documents_read_with_a_tight_size_limit");
        }
        for cut in &cuts {
            check_cut(&c.spec, &e, *cut, None, limit, &RScript::whole(), st).map_err(|f| Fail::new(&f.clause, format!("[slice run] {}", f.detail)))?;
            if c.variants.is_empty() {
                for _ in 0..2 {
                    let cap = io::gen_capacity(&mut vr, *cut);
                    let script = io::gen_rscript(&mut vr, *cut, &bounds);
                    check_cut(&c.spec, &e, *cut, cap, limit, &script, st)?;
                }
            } else {
                for (cap, script) in &c.variants {
                    check_cut(&c.spec, &e, *cut, *cap, limit, script, st)?;
                }
            }
        }
        Ok(ExecOk { nontrivial: len >= 2 })
    }

    fn fingerprint(&self, c: &Case) -> u64 {
        let e = enc::encode(&c.doc);
        let mut f = Fp::default();
        f.bytes(&e.bytes).u(c.cut.map(|x| x as u64 + 1).unwrap_or(0)).u(c.vseed);
        for el in &c.spec.elems {
            f.u(el.id).u(el.ty as u64);
        }
        f.0
    }

    fn to_j(&self, c: &Case) -> J {
        json!({
            "spec": c.spec.to_j(),
            "doc": enc::doc_to_j(&c.doc),
            "cut": c.cut,
            "variants": c.variants.iter().map(|(cap, s)| json!({"capacity": cap, "script": s.to_j()})).collect::<Vec<_>>(),
            "limit_slack": c.limit_slack,
            "vseed": c.vseed,
            "encoded": crate::val::bytes_to_j(&enc::encode(&c.doc).bytes),
        })
    }

    fn from_j(&self, j: &J) -> Result<Case, String> {
        let mut variants = Vec::new();
        for v in j.get("variants").and_then(|v| v.as_array()).ok_or("variants")? {
            variants.push((v.get("capacity").and_then(|c| c.as_u64()).map(|c| c as usize), RScript::from_j(v.get("script").ok_or("script")?)?));
        }
        Ok(Case {
            spec: SpecTable::from_j(j.get("spec").ok_or("spec")?)?,
            doc: enc::doc_from_j(j.get("doc").ok_or("doc")?)?,
            cut: j.get("cut").and_then(|c| c.as_u64()).map(|c| c as usize),
            variants,
            limit_slack: j.get("limit_slack").and_then(|v| v.as_u64()).map(|v| v as usize),
            vseed: j.get("vseed").and_then(|v| v.as_u64()).unwrap_or(0),
        })
    }

    fn shrink(&self, c: &Case) -> Vec<Case> {
        let mut v = Vec::new();
        let e = enc::encode(&c.doc);
        if c.cut.is_none() {
            // pin the failing cut; with the slice run only first, then with the drawn schedules
            for cut in 0..=e.bytes.len() {
                v.push(Case { cut: Some(cut), variants: vec![(None, RScript::whole())], ..c.clone() });
            }
            let mut vr = Rng::new(c.vseed);
            let bounds = e.layout.boundaries(e.bytes.len());
            for cut in 0..=e.bytes.len() {
                for _ in 0..2 {
                    let cap = io::gen_capacity(&mut vr, cut);
                    let script = io::gen_rscript(&mut vr, cut, &bounds);
                    v.push(Case { cut: Some(cut), variants: vec![(cap, script)], ..c.clone() });
                }
            }
            return v;
        }
        if c.limit_slack.is_some() {
            v.push(Case { limit_slack: None, ..c.clone() });
        }
        if c.variants.len() == 1 {
            let (cap, s) = &c.variants[0];
            if !s.is_whole() {
                v.push(Case { variants: vec![(*cap, RScript::whole())], ..c.clone() });
                if !s.chunks.is_empty() {
                    let mut s2 = s.clone();
                    s2.chunks.truncate(s.chunks.len() / 2);
                    v.push(Case { variants: vec![(*cap, s2)], ..c.clone() });
                }
            }
            if cap.is_some() {
                v.push(Case { variants: vec![(None, s.clone())], ..c.clone() });
            }
        }
        // simpler documents; the cut is kept relative to the end and to the start
        let cut = c.cut.unwrap();
        for d in cases::shrink_doc(&c.doc) {
            let ne = enc::encode(&d);
            let from_end = e.bytes.len() - cut.min(e.bytes.len());
            if ne.bytes.len() >= from_end {
                v.push(Case { doc: d.clone(), cut: Some(ne.bytes.len() - from_end), ..c.clone() });
            }
            v.push(Case { doc: d, cut: Some(cut.min(ne.bytes.len())), ..c.clone() });
        }
        if let Some(s) = cases::prune_spec(&c.spec, &c.doc, &[]) {
            v.push(Case { spec: s, ..c.clone() });
        }
        v
    }

    fn rule(&self) -> &'static str {
        "One case = specification + valid document (known- and unknown-size masters, explicit widths, non-canonical payload lengths) for which EVERY cut position 0..=len is executed (for the one document in 150 that holds elements larger than 64 KiB: every cut near a tag boundary or a multiple of 64 KiB plus a drawn sample): the slice run plus two drawn (capacity, delivery schedule) pairs per cut. Expected items and every field of the UnexpectedEOF error are computed from the reference encoder's layout. Non-trivial: the document has at least 2 bytes. Distinct: FNV-1a fingerprint of the encoded document + specification. 'evaluations' counts documents; the number of cuts executed is in counters.truncations_injected."
    }
    fn assumptions(&self) -> Vec<&'static str> {
        vec![
            "documents come from the reference encoder (RFC 8794); its layout is the ground truth",
            "documented tolerance: Ends of unknown-size masters that only the incomplete tag would imply may or may not precede the error",
            "absent and empty partial_data are identified when no payload byte is present",
        ]
    }
    fn expected_probes(&self) -> Vec<&'static str> {
        vec!["probe_cut_inside_id", "probe_cut_inside_size", "probe_cut_inside_payload", "probe_cut_on_boundary"]
    }
}
