//! C02 — reading, re-writing and reading again is a fixpoint (entirely on the real code).

use std::sync::Arc;

use serde_json::Value as J;

use crate::cases::{self, InputOpts, ReadCase};
use crate::fail;
use crate::gen::{FaultStats, SpecOpts};
use crate::harness::{run_reader, run_writer, Driver, Ev, IterCfg, MaxSz, Opt, ReaderSetup, WOp};
use crate::io::{self, RScript, WScript};
use crate::rng::Rng;
use crate::runner::{Check, ExecOk, Fail, Stats, Tier};
use crate::val::TagV;
use crate::wcases::{self, PresentOpts};

pub struct C02;

impl Check for C02 {
    type Case = ReadCase;
    fn id(&self) -> &'static str {
        "C02"
    }
    fn num(&self) -> u64 {
        2
    }
    fn level(&self) -> &'static str {
        "exploration"
    }
    fn runs(&self, tier: Tier) -> u64 {
        match tier {
            Tier::Quick => 2_000_000,
            Tier::Thorough => 60_000_000,
        }
    }

    fn gen(&self, seed: u64, spec_seed: u64, tier: Tier) -> ReadCase {
        let mut rng = Rng::new(seed);
        let spec = cases::spec_for(spec_seed, &SpecOpts::default());
        let mut fs = FaultStats::default();
        let mut doc = cases::doc_opts_for(tier, &mut rng);
        doc.noncanonical_pct = *rng.pick(&[0u64, 40, 80]);
        doc.pay.max_len = doc.pay.max_len.min(70_000);
        let via_writer = rng.chance(1, 4);
        let (bytes, class) = if via_writer {
            // writer output of a C01-style case
            doc.noncanonical_pct = 0;
            let mut d = crate::gen::gen_doc(&mut rng, &spec, &doc);
            if rng.chance(1, 2) {
                // master bodies of exactly 2^(7k)-1 bytes are where size re-encoding can go wrong
                crate::gen::pad_to_boundary(&mut rng, &spec, &mut d);
            }
            let mut ops = Vec::new();
            wcases::present(&mut rng, &d, &PresentOpts::default(), &mut ops);
            let wt = run_writer(&spec, &ops, &WScript::default(), true);
            let mut b = wt.out;
            if rng.chance(1, 3) {
                crate::gen::byte_faults(&mut rng, &mut b, 2, &mut fs);
                (b, "writer-output-faulted")
            } else {
                (b, "writer-output")
            }
        } else {
            // faults biased to payload bytes and size-preserving edits keep many streams in scope
            let io_o = InputOpts { doc, faulted_pct: 35, truncated_pct: 10, random_pct: 0, soup_pct: 0, max_faults: 2, mid_document_pct: 5 };
            let gi = cases::gen_input(&mut rng, &spec, &io_o, &mut fs);
            (gi.bytes, gi.class)
        };
        let cfg = IterCfg { max_size: MaxSz::Limit(1 << 20), capacity: io::gen_capacity(&mut rng, bytes.len()), ..Default::default() };
        let script = io::gen_rscript(&mut rng, bytes.len(), &[]);
        ReadCase { spec, input: Arc::new(bytes), cfg, script, driver: Driver::UntilEnd { extra: 0 }, class }
    }

    fn exec(&self, rc: &ReadCase, st: &mut Stats) -> Result<ExecOk, Fail> {
        if rc.cfg.allow != 0 || !rc.cfg.buffered.is_empty() || !rc.cfg.eof_end {
            st.inc("out_of_scope");
            return Ok(ExecOk { nontrivial: false });
        }
        let n = rc.input.len();
        // scope: the strict slice run reads the stream without error and it begins at a root element
        let whole = IterCfg { capacity: None, ..rc.cfg.clone() };
        let r1 = run_reader(&rc.spec, &ReaderSetup { input: rc.input.clone(), virtual_tail: 0, cfg: &whole, script: &RScript::whole(), driver: &Driver::UntilEnd { extra: 0 }, max_steps: 4 * n + 64, keep_read_log: false });
        st.add("api_calls", r1.api_calls as u64);
        let clean = r1.panic().is_none() && r1.first_error().is_none() && matches!(r1.evs.last(), Some(Ev::None));
        let tags: Vec<TagV> = r1.tags().into_iter().map(|(t, _)| t).collect();
        let at_root = tags.first().map(|t| rc.spec.is_root(t.id)).unwrap_or(false);
        if !clean || !at_root {
            st.inc("not_in_scope");
            return Ok(ExecOk { nontrivial: false });
        }
        st.inc("in_scope");
        st.inc(match rc.class {
            "valid" => "in_scope_valid",
            "byte-faulted" => "in_scope_byte_faulted",
            "truncated" => "in_scope_truncated",
            "writer-output" => "in_scope_writer_output",
            "writer-output-faulted" => "in_scope_writer_output_faulted",
            _ => "in_scope_replayed",
        });
        // non-canonical features that made it into scope (observed from the bytes: a reference
        // walk of the accepted stream)
        if let Ok((walked, _)) = crate::refdec::walk(&rc.spec, &rc.input, &tags, 0) {
            for w in &walked {
                if w.tag.is_end() {
                    continue;
                }
                if w.size.is_none() {
                    st.inc("probe_unknown_size_master_accepted");
                }
                if let Some(sz) = w.size {
                    let sl = w.hdr_len - crate::enc::id_bytes(w.tag.id).len();
                    if sl > crate::enc::min_size_width(sz) {
                        st.inc("probe_oversized_size_field_accepted");
                    }
                    match &w.tag.val {
                        crate::val::Val::F(_) if sz == 4 => st.inc("probe_f32_accepted"),
                        crate::val::Val::U(_) | crate::val::Val::I(_) if sz == 0 => st.inc("probe_zero_length_int_accepted"),
                        crate::val::Val::U(v) if (sz as usize) != crate::enc::min_uint_len(*v) => st.inc("probe_padded_or_short_uint_accepted"),
                        crate::val::Val::I(v) if (sz as usize) != crate::enc::min_int_len(*v) => st.inc("probe_padded_or_short_int_accepted"),
                        _ => {}
                    }
                }
            }
        }
        // write the emitted tags back, one write() per item
        let ops: Vec<WOp> = tags.iter().map(|t| WOp::Write(t.clone(), Opt::Default)).collect();
        let wt = run_writer(&rc.spec, &ops, &WScript::default(), true);
        st.add("writer_calls", ops.len() as u64 + 1);
        if let Some(p) = &wt.panic {
            fail!("writer-panic", "writing the emitted tags back panicked: {}\n read: {}", p, r1.short(60));
        }
        if let Some(i) = wt.results.iter().position(|r| r.is_err()) {
            fail!("writer-rejects-reader-output", "write() of item {} ({}) failed with {:?} although the strict reader emitted it\n read: {}", i, tags[i].short(), wt.results[i], r1.short(60));
        }
        if !matches!(wt.into_inner, Some(Ok(()))) {
            fail!("into-inner-fails", "into_inner() failed with {:?}\n read: {}", wt.into_inner, r1.short(60));
        }
        // read the output under the drawn schedule (and whole, for attribution)
        let out = Arc::new(wt.out);
        let m = out.len();
        let rd = |cfg: &IterCfg, s: &RScript| run_reader(&rc.spec, &ReaderSetup { input: out.clone(), virtual_tail: 0, cfg, script: s, driver: &Driver::UntilEnd { extra: 0 }, max_steps: 4 * m + 64, keep_read_log: false });
        let def = IterCfg::default();
        let r2 = rd(&def, &RScript::whole());
        st.add("api_calls", r2.api_calls as u64);
        if let Some(p) = r2.panic() {
            fail!("second-read-panics", "{}", p);
        }
        let tags2: Vec<TagV> = r2.tags().into_iter().map(|(t, _)| t).collect();
        if let Some(e) = r2.first_error() {
            fail!("second-read-error", "reading the re-written stream fails with {} after {} of {} tags\n first read:  {}\n second read: {}", e.short(), tags2.len(), tags.len(), r1.short(60), r2.short(60));
        }
        if tags2 != tags {
            let k = tags.iter().zip(tags2.iter()).take_while(|(a, b)| a == b).count();
            fail!("not-a-fixpoint", "tag {}: first read {} but after re-writing {}\n first read:  {}\n second read: {}", k, tags.get(k).map(|t| t.short()).unwrap_or("<end>".into()), tags2.get(k).map(|t| t.short()).unwrap_or("<end>".into()), r1.short(60), r2.short(60));
        }
        // the same tags written back another way: some masters with unknown size (through either call), some
        // size fields 8 bytes wide. Histories that land in the zone the properties exclude are not tried.
        let mut arng = Rng::new(rc.fingerprint() ^ 0xA17E_44A7);
        let unk_pct = *arng.pick(&[0u64, 30, 70, 100]);
        let alt: Vec<WOp> = tags
            .iter()
            .map(|t| {
                if t.is_start() && arng.below(100) < unk_pct {
                    if arng.chance(1, 2) { WOp::WriteUnknownDeprecated(t.clone()) } else { WOp::Write(t.clone(), Opt::Unknown) }
                } else if !t.is_end() && !matches!(t.val, crate::val::Val::Raw(_)) && arng.chance(1, 6) {
                    WOp::Write(t.clone(), Opt::Width(8))
                } else {
                    WOp::Write(t.clone(), Opt::Default)
                }
            })
            .collect();
        if alt != ops && !wcases::ambiguous_history(&rc.spec, &alt) {
            st.inc("probe_alternative_rewrite");
            let wa = run_writer(&rc.spec, &alt, &WScript::default(), true);
            if let Some(p) = &wa.panic {
                fail!("writer-panic", "writing the emitted tags back ({}) panicked: {}", wcases::describe(&alt), p);
            }
            if let Some(i) = wa.results.iter().position(|r| r.is_err()) {
                fail!("writer-rejects-reader-output", "call {} of the re-write {} failed with {:?} although the strict reader emitted these tags
 read: {}", i, wcases::describe(&alt), wa.results[i], r1.short(60));
            }
            if !matches!(wa.into_inner, Some(Ok(()))) {
                fail!("into-inner-fails", "into_inner() failed with {:?} for the re-write {}", wa.into_inner, wcases::describe(&alt));
            }
            let outa = Arc::new(wa.out);
            let ma = outa.len();
            let ra = run_reader(&rc.spec, &ReaderSetup { input: outa.clone(), virtual_tail: 0, cfg: &def, script: &RScript::whole(), driver: &Driver::UntilEnd { extra: 0 }, max_steps: 4 * ma + 64, keep_read_log: false });
            if let Some(p) = ra.panic() {
                fail!("second-read-panics", "{}", p);
            }
            let tagsa: Vec<TagV> = ra.tags().into_iter().map(|(t, _)| t).collect();
            if ra.first_error().is_some() || tagsa != tags {
                let k = tags.iter().zip(tagsa.iter()).take_while(|(a, b)| a == b).count();
                fail!("not-a-fixpoint", "re-written as {}: tag {} was {} on the first read but the second read gives {}
 first read:  {}
 second read: {}", wcases::describe(&alt), k, tags.get(k).map(|t| t.short()).unwrap_or("<end>".into()), tagsa.get(k).map(|t| t.short()).or(ra.first_error().map(|e| e.short())).unwrap_or("<end>".into()), r1.short(60), ra.short(60));
            }
        }
        let sched = IterCfg { capacity: rc.cfg.capacity, ..Default::default() };
        let r3 = rd(&sched, &rc.script);
        st.add("fault_short_reads", r3.rstats.short_reads);
        let tags3: Vec<TagV> = r3.tags().into_iter().map(|(t, _)| t).collect();
        if r3.first_error().is_some() || tags3 != tags {
            st.inc("schedule_only_failures_left_to_C04");
        }
        Ok(ExecOk { nontrivial: tags.len() >= 3 })
    }

    fn fingerprint(&self, c: &ReadCase) -> u64 {
        c.fingerprint()
    }
    fn to_j(&self, c: &ReadCase) -> J {
        c.to_j()
    }
    fn from_j(&self, j: &J) -> Result<ReadCase, String> {
        ReadCase::from_j(j)
    }
    fn shrink(&self, c: &ReadCase) -> Vec<ReadCase> {
        c.shrink(true)
    }
    fn rule(&self) -> &'static str {
        "One case = specification + byte stream from (a) the reference encoder with non-canonical choices the writer never makes (integers padded to 0-8 bytes, 4-byte floats, oversized size fields, unknown-size masters closed by a following element or EOF), (b) the real writer's output, (c) byte-faulted or truncated variants of both. In scope iff the strict slice run ends without error and starts at a root element; then every emitted item is written through a fresh TagWriter::write, into_inner must succeed and the strict read of the output must give the identical tag sequence; the same for a second re-write in which a drawn subset of masters is written with unknown size (option or deprecated call) and some size fields are 8 bytes wide (skipped where that would land in the ambiguous zone the properties exclude). Non-trivial: in scope with at least 3 items. Distinct: FNV-1a fingerprint of bytes + schedule. counters.in_scope / not_in_scope give the reach."
    }
    fn assumptions(&self) -> Vec<&'static str> {
        vec!["self-referential oracle: both reads are the real iterator; what the first read means is C03/C06's subject", "offsets are excluded (encodings legitimately change)"]
    }
    fn expected_probes(&self) -> Vec<&'static str> {
        vec!["in_scope", "in_scope_byte_faulted", "probe_alternative_rewrite", "probe_unknown_size_master_accepted", "probe_oversized_size_field_accepted", "probe_f32_accepted", "probe_padded_or_short_uint_accepted", "probe_padded_or_short_int_accepted", "probe_zero_length_int_accepted"]
    }
}
