//! C08 — buffered (Full) masters are exactly the flat stream rolled up.
//! Differential on the real code: same bytes, with and without `tags_to_buffer`.

use std::sync::Arc;

use serde_json::{json, Value as J};

use crate::cases::{self, InputOpts, ReadCase};
use crate::enc;
use crate::fail;
use crate::gen::{FaultStats, SpecOpts};
use crate::harness::{run_reader, Driver, Ev, IterCfg, MaxSz, RTrace, ReaderSetup};
use crate::io;
use crate::rng::Rng;
use crate::runner::{Check, ExecOk, Fail, Stats, Tier};
use crate::val::{TagV, Val};

pub struct C08;

#[derive(Clone, Debug)]
pub struct Case {
    pub rc: ReadCase,
    /// try every subset of the master ids that occur in the input (≤ 6) as buffered set
    pub sweep: bool,
}

fn run(rc: &ReadCase, buffered: &[u64]) -> RTrace {
    let mut cfg = rc.cfg.clone();
    cfg.buffered = buffered.to_vec();
    let n = rc.input.len();
    run_reader(&rc.spec, &ReaderSetup { input: rc.input.clone(), virtual_tail: 0, cfg: &cfg, script: &rc.script, driver: &rc.driver, max_steps: 4 * n + 64, keep_read_log: false })
}

/// Flattened items with the offsets that are observable: top-level items and Full items (→ Start).
fn flatten_off(items: &[(TagV, usize)]) -> Vec<(TagV, Option<usize>)> {
    fn rec(t: &TagV, off: Option<usize>, out: &mut Vec<(TagV, Option<usize>)>) {
        match &t.val {
            Val::Full(cs) => {
                out.push((TagV::new(t.id, Val::Start), off));
                for c in cs {
                    rec(c, None, out);
                }
                out.push((TagV::new(t.id, Val::End), off));
            }
            _ => out.push((t.clone(), off)),
        }
    }
    let mut out = Vec::new();
    for (t, o) in items {
        rec(t, Some(*o), &mut out);
    }
    out
}

fn masters_in_input(rc: &ReadCase, u: &RTrace) -> Vec<u64> {
    let mut v: Vec<u64> = Vec::new();
    for (t, _) in u.ok_prefix() {
        if t.is_start() && !v.contains(&t.id) {
            v.push(t.id);
        }
    }
    let _ = rc;
    v
}

fn compare(rc: &ReadCase, u: &RTrace, buffered: &[u64], st: &mut Stats) -> Result<bool, Fail> {
    let b = run(rc, buffered);
    st.add("api_calls", b.api_calls as u64);
    st.add("read_calls", b.read_calls as u64);
    st.inc("buffered_runs");
    let ctx = |b: &RTrace| format!("buffered ids {:x?}\n unbuffered: {}\n buffered:   {}", buffered, u.short(60), b.short(60));
    if u.panic().is_some() || u.budget_exceeded || u.step_cap_hit {
        st.inc("skipped_not_total");
        return Ok(false);
    }
    if let Some(p) = b.panic() {
        fail!("panic-when-buffering", "the unbuffered parse does not panic, the buffered one does: {}\n {}", p, ctx(&b));
    }
    if b.budget_exceeded || b.step_cap_hit {
        fail!("no-termination-when-buffering", "{}", ctx(&b));
    }
    let ui = u.ok_prefix();
    let bi = b.ok_prefix();
    let fb = flatten_off(&bi);
    if b.rstats.hard > 0 {
        st.inc("fault_hard_delivered_while_buffering");
    }
    let u_clean = matches!(u.evs.last(), Some(Ev::None)) && u.first_error().is_none();
    let b_clean = matches!(b.evs.last(), Some(Ev::None)) && b.first_error().is_none();
    let fulls = bi.iter().filter(|(t, _)| t.is_full()).count();
    if fulls > 0 {
        st.inc("probe_full_items");
    }
    fn nested_full(t: &TagV) -> bool {
        if let Val::Full(cs) = &t.val {
            cs.iter().any(|c| c.is_full() || nested_full(c))
        } else {
            false
        }
    }
    if bi.iter().any(|(t, _)| nested_full(t)) {
        st.inc("probe_nested_full");
    }
    // sequence
    let k = fb.iter().zip(ui.iter()).take_while(|((a, _), (b, _))| a == b).count();
    // with end-of-stream closing off (and no switch back on) a master that is still open when the source ends is never
    // completed: the buffered parse withholds it, so only "a prefix, and the same kind of ending" can be asked for
    let open_ended = !rc.cfg.eof_end;
    if u_clean && open_ended {
        // ... exactly everything in front of the outermost buffered master that is still open at the end
        let mut open: Vec<(u64, usize)> = Vec::new();
        for (i, (t, _)) in ui.iter().enumerate() {
            if t.is_start() {
                open.push((t.id, i));
            } else if t.is_end() {
                open.pop();
            }
        }
        let expected_len = open.iter().find(|(id, _)| buffered.contains(id)).map_or(ui.len(), |(_, i)| *i);
        if k < fb.len() || fb.len() != expected_len {
            fail!("flatten-differs", "flattened item {}: unbuffered gives {} but buffered gives {}\n {}", k, ui.get(k).map(|t| t.0.short()).unwrap_or("<end>".into()), fb.get(k).map(|t| t.0.short()).unwrap_or("<end>".into()), ctx(&b));
        }
        if !b_clean {
            fail!("buffered-errors-on-clean-input", "the unbuffered parse ends cleanly but the buffered one ends with {:?}\n {}", b.evs.last().map(|e| e.short()), ctx(&b));
        }
    } else if u_clean {
        if k < fb.len() || fb.len() != ui.len() {
            fail!("flatten-differs", "flattened item {}: unbuffered gives {} but buffered gives {}\n {}", k, ui.get(k).map(|t| t.0.short()).unwrap_or("<end>".into()), fb.get(k).map(|t| t.0.short()).unwrap_or("<end>".into()), ctx(&b));
        }
        if !b_clean {
            fail!("buffered-errors-on-clean-input", "the unbuffered parse ends cleanly but the buffered one ends with {:?}\n {}", b.evs.last().map(|e| e.short()), ctx(&b));
        }
    } else {
        st.inc("probe_error_ending");
        if k < fb.len() {
            fail!("not-a-prefix", "flattened item {}: unbuffered gives {} but buffered gives {}\n {}", k, ui.get(k).map(|t| t.0.short()).unwrap_or("<error>".into()), fb[k].0.short(), ctx(&b));
        }
        if b_clean || b.first_error().is_none() {
            fail!("buffered-hides-error", "the unbuffered parse ends in {} but the buffered one ends cleanly\n {}", u.first_error().map(|e| e.short()).unwrap_or_default(), ctx(&b));
        }
        if fb.len() < ui.len() && fulls > 0 {
            st.inc("probe_error_inside_buffered_master");
        }
    }
    // offsets of everything observable: what a Full item or an End reports is C03's statement, not C08's; a difference
    // is counted here, not judged
    for (i, (_t, off)) in fb.iter().enumerate() {
        if let Some(o) = off {
            if i < ui.len() && *o != ui[i].1 {
                st.inc("observed_offset_differs_when_buffering");
                break;
            }
        }
    }
    Ok(fulls > 0)
}

impl Check for C08 {
    type Case = Case;
    fn id(&self) -> &'static str {
        "C08"
    }
    fn num(&self) -> u64 {
        8
    }
    fn level(&self) -> &'static str {
        "exploration"
    }
    fn runs(&self, tier: Tier) -> u64 {
        match tier {
            Tier::Quick => 2_000_000,
            Tier::Thorough => 60_000_000,
        }
    }

    fn gen(&self, seed: u64, spec_seed: u64, tier: Tier) -> Case {
        let mut rng = Rng::new(seed);
        let so = SpecOpts { global_masters: true, intermediate_globals: true, ..Default::default() };
        let spec = cases::spec_for(spec_seed, &so);
        let mut fs = FaultStats::default();
        let mut doc = cases::doc_opts_for(tier, &mut rng);
        doc.pay.max_len = doc.pay.max_len.min(300);
        let io = InputOpts { doc, faulted_pct: 25, truncated_pct: 15, random_pct: 3, soup_pct: 7, max_faults: 2, mid_document_pct: 8 };
        let mut gi = cases::gen_input(&mut rng, &spec, &io, &mut fs);
        let mut deep: Option<u64> = None;
        if rng.chance(1, 300) {
            // a master nested in itself up to 150 deep (the roll-up recurses once per level)
            let depth = *rng.pick(&[5usize, 20, 60, 150]);
            if let Some((doc, g)) = crate::gen::gen_deep_doc(&mut rng, &spec, depth) {
                gi.bytes = enc::encode(&doc).bytes;
                gi.class = "valid";
                deep = Some(g);
            }
        }
        let mut cfg = IterCfg::default();
        cfg.allow = cases::gen_allow(&mut rng, 80);
        cfg.max_size = if gi.class == "valid" { MaxSz::Default } else { MaxSz::Limit(1 << 20) };
        cfg.capacity = io::gen_capacity(&mut rng, gi.bytes.len());
        crate::harness::gen_cfg_history(&mut rng, &mut cfg);
        let script = io::gen_rscript(&mut rng, gi.bytes.len(), &[]);
        let sweep = rng.chance(1, 3);
        // buffered set: drawn from the masters of the specification, biased to those in the input
        let ms = spec.masters();
        let mut present: Vec<u64> = Vec::new();
        for m in &ms {
            let ib = enc::id_bytes(*m);
            if gi.bytes.windows(ib.len()).any(|w| w == &ib[..]) {
                present.push(*m);
            }
        }
        let pool = if present.is_empty() || rng.chance(1, 5) { ms.clone() } else { present };
        let mut buffered = Vec::new();
        if !pool.is_empty() {
            for _ in 0..rng.range(1, 3) {
                let m = *rng.pick(&pool);
                if !buffered.contains(&m) {
                    buffered.push(m);
                }
            }
        }
        cfg.buffered = buffered;
        if let Some(g) = deep {
            // buffer an enclosing master (so that the nested instances are rolled up) or the recursive one itself
            if rng.chance(1, 2) && !cfg.buffered.contains(&g) {
                cfg.buffered.push(g);
            }
        }
        let mut rc = ReadCase { spec, input: Arc::new(gi.bytes), cfg, script, driver: Driver::UntilEnd { extra: 0 }, class: gi.class };
        // source-fault sub-batch (one case in eight): one read fails hard at a drawn place in the stream, for the flat and
        // the buffered parse alike (the fault is tied to the stream offset, not to a call count, so that it does not
        // matter how either parse batches its reads). The flat parse ends in that read error; so must the buffered one.
        if rng.chance(1, 8) && rc.input.len() > 1 {
            let at = rng.range(1, rc.input.len() - 1);
            rc.script.pos_faults.push((at, io::Fault::Hard(rng.below(4) as u8)));
        }
        // end-of-stream closing off, source simply ends (one case in ten): masters still open at the end are never
        // completed, so the buffered parse may withhold them; everything else must still agree (see `compare`)
        if rc.script.pos_faults.is_empty() && rng.chance(1, 10) {
            rc.cfg.eof_end = false;
        }
        // streaming sub-batch (one case in eight): the source reports a temporary end of file at tag boundaries
        // while EOF closing is off and the caller polls on: buffering that is interrupted and resumed must roll up
        // the same children
        if rc.script.pos_faults.is_empty() && rc.cfg.eof_end && rng.chance(1, 8) && !rc.input.is_empty() {
            let unb = IterCfg { buffered: vec![], eof_end: false, capacity: None, ..rc.cfg.clone() };
            let bounds: Vec<usize> = crate::harness::slice_run(&rc.spec, &rc.input, &unb).ok_prefix().iter().filter(|(t, o)| !t.is_end() && *o > 0).map(|(_, o)| *o).collect();
            if !bounds.is_empty() {
                rc.cfg.eof_end = false;
                rc.driver = Driver::Streaming { extra: 0 };
                for _ in 0..rng.range(1, 4) {
                    let b = *rng.pick(&bounds);
                    for _ in 0..rng.range(1, 2) {
                        rc.script.pauses.push(b);
                    }
                }
            }
        }
        Case { rc, sweep }
    }

    fn exec(&self, c: &Case, st: &mut Stats) -> Result<ExecOk, Fail> {
        let streaming = matches!(c.rc.driver, Driver::Streaming { .. });
        // (temporary end-of-file reports belong to the streaming sub-batch, and that one has closing off: shrunk cases
        // that mix the two differently are outside the property)
        if (streaming && c.rc.cfg.eof_end) || (!streaming && !c.rc.script.pauses.is_empty()) {
            st.inc("out_of_scope");
            return Ok(ExecOk { nontrivial: false });
        }
        if !c.rc.cfg.eof_end && !streaming && (!c.rc.script.pauses.is_empty() || !matches!(c.rc.driver, Driver::UntilEnd { .. })) {
            st.inc("out_of_scope");
            return Ok(ExecOk { nontrivial: false });
        }
        if !c.rc.cfg.eof_end && !streaming {
            st.inc("closing_off_runs");
        }
        if streaming {
            // temporary EOF is in scope only at tag boundaries (this matters for shrunk cases)
            let unb = IterCfg { buffered: vec![], eof_end: false, capacity: None, ..c.rc.cfg.clone() };
            let bounds: Vec<usize> = crate::harness::slice_run(&c.rc.spec, &c.rc.input, &unb).ok_prefix().iter().filter(|(t, o)| !t.is_end() && *o > 0).map(|(_, o)| *o).collect();
            // (and a fault tied to a stream offset surfaces when the read-ahead reaches it, which a paused schedule
            // changes: the two sub-batches are kept apart)
            if c.rc.script.pauses.iter().any(|p| !bounds.contains(p)) || !c.rc.script.pos_faults.is_empty() {
                st.inc("out_of_scope");
                return Ok(ExecOk { nontrivial: false });
            }
            st.inc("streaming_runs");
        }
        // the unbuffered reference of a streaming case is the same parse without the temporary end-of-file reports (closing
        // off as well): what the schedule does to an unbuffered parse is C04's business
        let plain;
        let u = if streaming {
            let mut r = c.rc.clone();
            r.script.pauses.clear();
            r.driver = Driver::UntilEnd { extra: 0 };
            plain = r;
            run(&plain, &[])
        } else {
            run(&c.rc, &[])
        };
        st.inc(match c.rc.class {
            "valid" => "input_valid",
            "byte-faulted" => "input_byte_faulted",
            "truncated" => "input_truncated",
            "random" => "input_random",
            "header-soup" => "input_header_soup",
            _ => "input_replayed",
        });
        let mut nt = false;
        if c.sweep {
            let ms = masters_in_input(&c.rc, &u);
            if ms.len() <= 6 {
                st.inc("sweeps");
                for mask in 1..(1u32 << ms.len()) {
                    let set: Vec<u64> = ms.iter().enumerate().filter(|(i, _)| mask & (1 << i) != 0).map(|(_, m)| *m).collect();
                    nt |= compare(&c.rc, &u, &set, st)?;
                }
                return Ok(ExecOk { nontrivial: nt });
            }
        }
        nt |= compare(&c.rc, &u, &c.rc.cfg.buffered, st)?;
        Ok(ExecOk { nontrivial: nt })
    }

    fn fingerprint(&self, c: &Case) -> u64 {
        c.rc.fingerprint() ^ (c.sweep as u64) << 17
    }
    fn to_j(&self, c: &Case) -> J {
        let mut j = c.rc.to_j();
        j["sweep"] = json!(c.sweep);
        j
    }
    fn from_j(&self, j: &J) -> Result<Case, String> {
        Ok(Case { rc: ReadCase::from_j(j)?, sweep: j.get("sweep").and_then(|s| s.as_bool()).unwrap_or(false) })
    }
    fn shrink(&self, c: &Case) -> Vec<Case> {
        let mut v = Vec::new();
        if c.sweep {
            let u = run(&c.rc, &[]);
            let ms = masters_in_input(&c.rc, &u);
            if ms.len() <= 6 {
                for mask in 1..(1u32 << ms.len()) {
                    let set: Vec<u64> = ms.iter().enumerate().filter(|(i, _)| mask & (1 << i) != 0).map(|(_, m)| *m).collect();
                    let mut rc = c.rc.clone();
                    rc.cfg.buffered = set;
                    v.push(Case { rc, sweep: false });
                }
            }
            v.push(Case { rc: c.rc.clone(), sweep: false });
            return v;
        }
        // keep at least one buffered id: the generic shrinker's "clear buffered" candidates simply pass
        for rc in c.rc.shrink(true) {
            v.push(Case { rc, sweep: false });
        }
        v
    }
    fn rule(&self) -> &'static str {
        "One case = specification (global and nested-in-themselves masters allowed) + bytes (valid / truncated / byte-faulted; known- and unknown-size encodings) + a buffered-id set (drawn, or ALL non-empty subsets of the master ids occurring in the input when there are at most 6) + tolerance set + delivery schedule; the buffered parse, with every Full replaced by Start/children/End, is compared with the unbuffered parse of the same bytes (equal and clean, or a prefix followed by an error), including all observable offsets. One case in eight is a streaming one: EOF closing off, temporary end-of-file reports at tag boundaries (also inside a master being buffered), the caller polling on; reference = the unbuffered parse without those reports; expected = everything in front of the outermost buffered master still open at the end. One case in ten has closing off and a source that simply ends (then: a prefix and the same kind of ending). Another case in eight has one read fail hard at a drawn stream offset, for both parses alike. Non-trivial: at least one Full item was emitted. Distinct: FNV-1a fingerprint of bytes + configuration + schedule."
    }
    fn assumptions(&self) -> Vec<&'static str> {
        vec!["default end-of-stream closing, as the property does not range over that switch", "both runs use the same delivery schedule; schedule dependence as such is C04's subject"]
    }
    fn expected_probes(&self) -> Vec<&'static str> {
        vec!["probe_full_items", "probe_nested_full", "probe_error_ending", "probe_error_inside_buffered_master", "sweeps", "streaming_runs", "closing_off_runs", "fault_hard_delivered_while_buffering"]
    }
}
