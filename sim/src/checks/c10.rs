//! C10 — writer streams: flushed bytes are final, and complete when no sized master is open.
//! The destination is observed after every call and every partial write; what it holds is
//! interpreted by the reference decoder, not by the iterator under test.

use serde_json::{json, Value as J};

use crate::cases;
use crate::fail;
use crate::gen::{self, SpecOpts};
use crate::harness::{run_writer, WOp};
use crate::io::{self, WScript};
use crate::refdec::{ref_decode, walk, DecStop};
use crate::rng::Rng;
use crate::runner::{Check, ExecOk, Fail, Fp, Stats, Tier};
use crate::spec::SpecTable;
use crate::val::{WErrV};
use crate::wcases::{self, PresentOpts};

pub struct C10;

#[derive(Clone, Debug)]
pub struct Case {
    pub spec: SpecTable,
    pub ops: Vec<WOp>,
    pub wscript: WScript,
}

fn describe(ops: &[WOp]) -> String {
    ops.iter().map(|o| o.short()).collect::<Vec<_>>().join(" ")
}

/// Histories through a sink that fails. The properties say nothing about the state of the output after an
/// I/O error (C19 excludes them by name), so the oracle is deliberately narrow: everything up to the first real
/// failure is exactly the fault-free run, what the destination held at that moment is a prefix of the fault-free
/// output ("never retracted or altered"), and nothing panics afterwards. Whether `Interrupted` is retried and
/// whether the failing call returns the sink's own error are counted (probes), not judged: no property says so.
fn exec_faulted(c: &Case, st: &mut Stats) -> Result<ExecOk, Fail> {
    let clean = WScript { faults: vec![], flush_faults: vec![], ..c.wscript.clone() };
    let w0 = run_writer(&c.spec, &c.ops, &clean, true);
    if w0.panic.is_some() {
        st.inc("skipped_fault_free_run_panics");
        return Ok(ExecOk { nontrivial: false });
    }
    let w = run_writer(&c.spec, &c.ops, &c.wscript, true);
    st.add("writer_calls", c.ops.len() as u64 + 1);
    st.add("sink_write_calls", w.write_calls as u64);
    st.add("fault_interrupted_writes_delivered", w.interrupted as u64);
    st.inc("sink_fault_histories");
    if let Some(p) = &w.panic {
        fail!("writer-panic-after-sink-error", "{}\n calls: {}\n sink script: {}", p, describe(&c.ops), c.wscript.to_j());
    }
    // the first fault of ANY kind that the sink delivered (an Interrupted counts: nothing says it is retried), the call
    // during which it happened (ops.len() = the final into_inner), and what the sink held at that moment
    let first_hard = w.failures.first().map(|f| (f.out_len, (0..c.ops.len()).find(|i| w.failures_after[*i] >= 1).unwrap_or(c.ops.len())));
    let first_int = w.interrupts_at.first().map(|l| (*l, (0..c.ops.len()).find(|i| w.interrupts_after[*i] >= 1).unwrap_or(c.ops.len())));
    let first = match (first_hard, first_int) {
        (Some(a), Some(b)) => Some(if b.1 < a.1 || (b.1 == a.1 && b.0 <= a.0) { b } else { a }),
        (a, b) => a.or(b),
    };
    let Some((held, at)) = first else {
        // no scripted fault was reached: the run is the fault-free run
        if w.results != w0.results || w.out != w0.out {
            fail!("differs-before-sink-error", "no fault was delivered, yet the run differs from the fault-free one\n calls: {}\n sink script: {}", describe(&c.ops), c.wscript.to_j());
        }
        return Ok(ExecOk { nontrivial: false });
    };
    for i in 0..at {
        if w.results[i] != w0.results[i] || w.delivered_after[i] != w0.delivered_after[i] {
            fail!("differs-before-sink-error", "call {} ({}) happened before the sink failed, yet gives {:?} / {} bytes delivered instead of {:?} / {}\n calls: {}\n sink script: {}", i, c.ops[i].short(), w.results[i], w.delivered_after[i], w0.results[i], w0.delivered_after[i], describe(&c.ops), c.wscript.to_j());
        }
    }
    if held > w0.out.len() || w.out.len() < held || w.out[..held] != w0.out[..held] {
        fail!("altered-before-sink-error", "the {} bytes the sink held when it first failed are not a prefix of the fault-free output\n calls: {}\n sink script: {}", held, describe(&c.ops), c.wscript.to_j());
    }
    // counted, not judged: is Interrupted invisible, is a real failure reported by the call it happened in
    if w.failures.is_empty() {
        if w.results == w0.results && w.into_inner == w0.into_inner && w.out == w0.out {
            st.inc("probe_interrupted_write_retried");
        } else {
            st.inc("observed_interrupted_write_visible");
        }
    } else {
        let f = &w.failures[0];
        st.inc(match (f.in_flush, f.token) {
            (true, _) => "fault_flush_error_delivered",
            (false, 0) => "fault_write_zero_delivered",
            _ => "fault_write_error_delivered",
        });
        let fat = (0..c.ops.len()).find(|i| w.failures_after[*i] >= 1).unwrap_or(c.ops.len());
        let got = if fat < c.ops.len() { w.results[fat].clone() } else { w.into_inner.clone().unwrap_or(Ok(())) };
        match &got {
            Err(WErrV::Write { kind, token }) if *kind == f.kind && *token == f.token => st.inc("probe_sink_error_carried"),
            _ => st.inc("observed_sink_error_not_reported_by_the_failing_call"),
        }
        if fat < c.ops.len() {
            st.inc("probe_calls_continued_after_sink_error");
        }
    }
    Ok(ExecOk { nontrivial: true })
}

impl Check for C10 {
    type Case = Case;
    fn id(&self) -> &'static str {
        "C10"
    }
    fn num(&self) -> u64 {
        10
    }
    fn level(&self) -> &'static str {
        "exploration"
    }
    fn runs(&self, tier: Tier) -> u64 {
        match tier {
            Tier::Quick => 2_000_000,
            Tier::Thorough => 60_000_000,
        }
    }

    fn gen(&self, seed: u64, spec_seed: u64, tier: Tier) -> Case {
        let mut rng = Rng::new(seed);
        let spec = cases::spec_for(spec_seed, &SpecOpts::default());
        let mut o = cases::doc_opts_for(tier, &mut rng);
        o.noncanonical_pct = 0;
        o.unknown_pct = *rng.pick(&[0u64, 40, 80, 100]);
        o.raw_pct = *rng.pick(&[0u64, 10]);
        // mostly small payloads (what matters is the structure); one history in twelve has a few large ones (4 KiB to
        // beyond the 64 KiB that buffers tend to be sized at), in a document small enough to decode at every instant
        if rng.chance(1, 400) {
            // ... and now and then one of a megabyte or two, in a tiny document
            o.pay.max_len = 2_100_000;
            o.pay.boundary_pct = 60;
            o.max_nodes = o.max_nodes.min(4);
        } else if rng.chance(1, 12) {
            o.pay.max_len = 70_000;
            o.pay.boundary_pct = 40;
            o.max_nodes = o.max_nodes.min(10);
        } else {
            o.pay.max_len = o.pay.max_len.min(300);
        }
        let doc = gen::gen_doc(&mut rng, &spec, &o);
        let mut ops = Vec::new();
        let full_pct = *rng.pick(&[0u64, 30]);
        wcases::present(&mut rng, &doc, &PresentOpts { full_pct, ..Default::default() }, &mut ops);
        // flush() in the middle: it closes every open master, so the history ends there
        if rng.chance(1, 4) && !ops.is_empty() {
            let at = rng.range(1, ops.len());
            ops.truncate(at);
            ops.push(WOp::Flush);
        } else if rng.chance(1, 3) && !ops.is_empty() {
            // or the history simply stops somewhere (into_inner closes what is open)
            let at = rng.range(1, ops.len());
            ops.truncate(at);
        }
        // rejected calls in between must not disturb the guarantees for the calls that follow
        // (C19 says they leave no trace; here the streaming invariants are checked after them)
        if rng.chance(1, 3) && !ops.is_empty() {
            // positions and chains refer to the valid history; the failing calls are merged in afterwards
            let valid: Vec<WOp> = ops.iter().filter(|o| !matches!(o, WOp::Flush)).cloned().collect();
            let mut ins: Vec<(usize, WOp)> = Vec::new();
            for _ in 0..rng.range(1, 2) {
                let at = rng.range(0, valid.len());
                let fc = crate::checks::c19::failing_calls(&mut rng, &spec, &valid, at);
                if !fc.is_empty() {
                    ins.push((at, rng.pick(&fc).0.clone()));
                }
            }
            let had_flush = matches!(ops.last(), Some(WOp::Flush));
            let mut merged = Vec::new();
            for p in 0..=valid.len() {
                for (q, op) in &ins {
                    if *q == p {
                        merged.push(op.clone());
                    }
                }
                if p < valid.len() {
                    merged.push(valid[p].clone());
                }
            }
            if had_flush {
                merged.push(WOp::Flush);
            }
            ops = merged;
        }
        let mut wscript = io::gen_wscript(&mut rng);
        // sink faults (a separate sub-batch with its own, narrower oracle): one history in six
        if rng.chance(1, 6) {
            let near = |rng: &mut Rng| if rng.chance(2, 3) { rng.range(0, 6) } else { rng.range(0, 40) };
            match rng.below(5) {
                0 => {
                    for _ in 0..rng.range(1, 3) {
                        let at = near(&mut rng);
                        wscript.faults.push((at, io::WFault::Interrupted));
                    }
                }
                1 | 2 => {
                    if rng.chance(1, 3) {
                        wscript.faults.push((near(&mut rng), io::WFault::Interrupted));
                    }
                    wscript.faults.push((near(&mut rng), io::WFault::Hard(rng.below(4) as u8)));
                }
                3 => wscript.faults.push((near(&mut rng), io::WFault::Zero)),
                _ => wscript.flush_faults.push((rng.range(0, 4), rng.below(4) as u8)),
            }
            // one call index, one fault
            wscript.faults.sort_by_key(|f| f.0);
            wscript.faults.dedup_by_key(|f| f.0);
        }
        Case { spec, ops, wscript }
    }

    fn exec(&self, c: &Case, st: &mut Stats) -> Result<ExecOk, Fail> {
        if !c.wscript.faults.is_empty() || !c.wscript.flush_faults.is_empty() {
            return exec_faulted(c, st);
        }
        let w = run_writer(&c.spec, &c.ops, &c.wscript, true);
        st.add("writer_calls", c.ops.len() as u64 + 1);
        st.add("sink_write_calls", w.write_calls as u64);
        st.add("fault_partial_writes", w.partial_writes as u64);
        st.add("observation_instants", (w.snapshots.len() + w.delivered_after.len()) as u64);
        if let Some(p) = &w.panic {
            fail!("writer-panic", "{}\n calls: {}", p, describe(&c.ops));
        }
        // rejected calls are, by C19, as if never made: the model follows the accepted calls only
        if !matches!(w.into_inner, Some(Ok(()))) {
            st.inc("writer_rejected");
            return Ok(ExecOk { nontrivial: false });
        }
        let rejected = w.results.iter().filter(|r| r.is_err()).count();
        if rejected > 0 {
            st.inc("probe_histories_with_rejected_calls");
        }
        let all_ops = &c.ops;
        let acc_idx: Vec<usize> = (0..all_ops.len()).filter(|i| w.results[*i].is_ok()).collect();
        let acc_ops: Vec<WOp> = acc_idx.iter().map(|i| all_ops[*i].clone()).collect();
        let acc_delivered: Vec<usize> = acc_idx.iter().map(|i| w.delivered_after[*i]).collect();
        // a rejected call must not change what the destination holds
        for i in 0..all_ops.len() {
            if w.results[i].is_err() {
                let before = if i == 0 { 0 } else { w.delivered_after[i - 1] };
                if w.delivered_after[i] != before {
                    // a rejected call may hand over bytes that were accepted earlier and still pending (the header of an
                    // unknown-size Start): neither C10 nor C19 fixes when those leave. That what the destination holds
                    // stays a prefix of the final output is checked below, for every instant. Counted only.
                    st.inc("observed_rejected_call_handed_over_pending_bytes");
                }
            }
        }
        if wcases::ambiguous_history(&c.spec, &acc_ops) {
            // excluded by the properties themselves (matters for shrunk cases)
            st.inc("out_of_scope_ambiguous");
            return Ok(ExecOk { nontrivial: false });
        }
        let c = &Case { spec: c.spec.clone(), ops: acc_ops, wscript: c.wscript.clone() };
        let w_delivered_after = acc_delivered;
        let fin = &w.out;
        // (a) never retracted or altered: same bytes as through a sink that takes every write whole,
        // and the sink only ever grew
        let w2 = run_writer(&c.spec, &c.ops, &WScript::default(), true);
        if w2.out != *fin {
            fail!("output-depends-on-partial-writes", "final output differs between the short-writing sink ({} bytes) and a whole-writing sink ({} bytes)\n calls: {}", fin.len(), w2.out.len(), describe(&c.ops));
        }
        let mut prev = 0;
        for s in &w.snapshots {
            if *s < prev || *s > fin.len() {
                fail!("retracted", "sink length went from {} to {}", prev, s);
            }
            prev = *s;
        }
        // positions of every Start in the final output
        let all_items = wcases::expected_with_eof_ends(&c.ops);
        let (wk, end) = match walk(&c.spec, fin, &all_items, 0) {
            Ok(x) => x,
            Err(e) => fail!("final-output-wrong", "the final output does not decode to the written tags (item {}: {})\n calls: {}", e.item, e.what, describe(&c.ops)),
        };
        if end != fin.len() {
            fail!("final-output-wrong", "{} trailing bytes after the last tag", fin.len() - end);
        }
        // (d) complete after into_inner()
        let (dec, stop) = ref_decode(&c.spec, fin);
        if stop != DecStop::Clean || dec != all_items {
            fail!("incomplete-after-into-inner", "after into_inner() the destination decodes to {} tags ({:?}), expected {}\n calls: {}", dec.len(), stop, all_items.len(), describe(&c.ops));
        }
        // per call
        let mut start_offsets: Vec<usize> = Vec::new(); // offsets of Start items, in order of writing
        for x in &wk {
            if x.tag.is_start() {
                start_offsets.push(x.off);
            }
        }
        let mut nontrivial = false;
        for i in 0..c.ops.len() {
            let d = w_delivered_after[i];
            let prefix = &c.ops[..=i];
            let open = wcases::open_after(prefix);
            // index (among all Starts written so far) of each open master: replay the prefix
            let mut idx_stack: Vec<(usize, bool)> = Vec::new();
            let mut starts = 0usize;
            for t in wcases::written_tags(prefix) {
                if t.is_start() {
                    idx_stack.push((starts, true));
                    starts += 1;
                } else if t.is_end() {
                    idx_stack.pop();
                }
            }
            // which of the open ones are known-size comes from `open`; Flush clears both
            if matches!(c.ops[i], WOp::Flush) {
                idx_stack.clear();
            }
            debug_assert_eq!(idx_stack.len(), open.len());
            let outer_known = open.iter().position(|m| m.known);
            match outer_known {
                Some(k) => {
                    // (c) nothing of an open known-size master is handed over
                    let limit = start_offsets[idx_stack[k].0];
                    if d > limit {
                        fail!("sized-master-content-leaked", "after call {} ({}) the destination holds {} bytes, but the outermost open known-size master {:x} starts at byte {} of the final output\n calls: {}", i, c.ops[i].short(), d, open[k].id, limit, describe(&c.ops));
                    }
                    st.inc("probe_observed_with_sized_master_open");
                    if open[..k].iter().any(|m| !m.known) {
                        st.inc("probe_sized_master_inside_unknown_master");
                    }
                }
                None => {
                    let completes = match &c.ops[i] {
                        WOp::Write(t, _) => !t.is_start(),
                        WOp::WriteRaw(..) | WOp::Flush => true,
                        WOp::WriteUnknownDeprecated(_) => false,
                    };
                    if completes {
                        // (b) everything accepted so far is visible and parses to exactly that
                        let want = wcases::expected_with_eof_ends(prefix);
                        let (got, stop) = ref_decode(&c.spec, &fin[..d]);
                        if stop != DecStop::Clean || got != want {
                            let k = got.iter().zip(want.iter()).take_while(|(a, b)| a == b).count();
                            fail!("not-everything-visible", "after call {} ({}) with no known-size master open the destination holds {} bytes that decode to {} tags ({:?}); expected the {} tags written so far (first difference at {}: {} vs {})\n calls: {}", i, c.ops[i].short(), d, got.len(), stop, want.len(), k, got.get(k).map(|t| t.short()).unwrap_or("<end>".into()), want.get(k).map(|t| t.short()).unwrap_or("<end>".into()), describe(&c.ops));
                        }
                        st.inc("probe_visibility_checked");
                        if !open.is_empty() {
                            st.inc("probe_visible_inside_unknown_master");
                            nontrivial = true;
                        }
                    }
                }
            }
        }
        if c.ops.iter().any(|o| matches!(o, WOp::Flush)) {
            st.inc("probe_flush_in_history");
        }
        Ok(ExecOk { nontrivial: nontrivial || c.ops.len() >= 3 })
    }

    fn fingerprint(&self, c: &Case) -> u64 {
        let mut f = Fp::default();
        wcases::fp_ops(&mut f, &c.ops);
        for (i, k) in &c.wscript.faults {
            f.u(*i as u64 | 1 << 42).s(&format!("{:?}", k));
        }
        for (i, k) in &c.wscript.flush_faults {
            f.u(*i as u64 | 1 << 43).u(*k as u64);
        }
        for e in &c.spec.elems {
            f.u(e.id).u(e.ty as u64);
        }
        f.0
    }
    fn to_j(&self, c: &Case) -> J {
        json!({"spec": c.spec.to_j(), "ops": wcases::ops_to_j(&c.ops), "wscript": c.wscript.to_j()})
    }
    fn from_j(&self, j: &J) -> Result<Case, String> {
        Ok(Case { spec: SpecTable::from_j(j.get("spec").ok_or("spec")?)?, ops: wcases::ops_from_j(j.get("ops").ok_or("ops")?)?, wscript: WScript::from_j(j.get("wscript").ok_or("wscript")?)? })
    }
    fn shrink(&self, c: &Case) -> Vec<Case> {
        let mut v = Vec::new();
        if c.wscript != WScript::default() {
            v.push(Case { wscript: WScript::default(), ..c.clone() });
            if !c.wscript.chunks.is_empty() || c.wscript.rest != 0 {
                v.push(Case { wscript: WScript { chunks: vec![], rest: 0, ..c.wscript.clone() }, ..c.clone() });
            }
            for i in 0..c.wscript.faults.len() {
                let mut ws = c.wscript.clone();
                ws.faults.remove(i);
                v.push(Case { wscript: ws, ..c.clone() });
            }
        }
        for ops in wcases::shrink_ops(&c.ops) {
            v.push(Case { ops, ..c.clone() });
        }
        v
    }
    fn rule(&self) -> &'static str {
        "One case = specification + valid writer call history (known- and unknown-size masters interleaved, Full masters, raw writes, explicit widths; optionally cut short and ended by flush() or just into_inner()) through a short-writing sink. Observed after every call and every partial write. Checked: final bytes independent of the partial-write schedule and never shrinking; while a known-size master is open nothing beyond the start of the outermost one is delivered; after a leaf / Full / End / raw write with no known-size master open the delivered bytes decode (reference decoder) to exactly the tags accepted so far; after flush()/into_inner() the document is complete. One history in six runs through a failing sink instead (Interrupted, a hard error, Ok(0), or a failing flush at a scripted call): everything before the first real failure must equal the fault-free run and be a prefix of its output, and nothing may panic afterwards (whether Interrupted is retried and whether the failing call returns the sink's own error are counted, not judged). Non-trivial: a visibility check happened inside an open unknown-size master, or at least 3 calls. Distinct: FNV-1a fingerprint of the call history + specification."
    }
    fn assumptions(&self) -> Vec<&'static str> {
        vec![
            "histories the writer rejects are out of scope here (C11/C19)",
            "what the destination holds after a sink error is not judged: no property fixes it (the writer drops the bytes it could not hand over)",
            "what the sink holds is interpreted by ref_decode with the closing rules of C07; documents avoid the ambiguous placements the properties exclude",
            "a Start of an unknown-size master is not required to be visible immediately (the property lists element, Full and End writes)",
        ]
    }
    fn expected_probes(&self) -> Vec<&'static str> {
        vec!["probe_observed_with_sized_master_open", "probe_sized_master_inside_unknown_master", "probe_visibility_checked", "probe_visible_inside_unknown_master", "probe_flush_in_history", "fault_partial_writes", "fault_interrupted_writes_delivered", "fault_write_error_delivered", "fault_write_zero_delivered", "fault_flush_error_delivered", "probe_sink_error_carried", "probe_interrupted_write_retried", "probe_calls_continued_after_sink_error"]
    }
}
