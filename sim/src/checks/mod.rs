pub mod c03;
pub mod c04;
pub mod c05;
pub mod c06;
