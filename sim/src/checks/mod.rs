pub mod c04;
