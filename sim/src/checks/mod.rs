pub mod c01;
pub mod c03;
pub mod c04;
pub mod c05;
pub mod c06;
pub mod c07;
pub mod c08;
pub mod c12;
