//! C20 — the async iterator yields what the blocking iterator yields, for every poll schedule.

use std::sync::Arc;

use serde_json::{json, Value as J};

use crate::cases::{self, InputOpts};
use crate::fail;
use crate::gen::{FaultStats, SpecOpts};
use crate::harness::{run_async, run_reader, ATrace, Driver, Ev, IterCfg, RTrace, ReaderSetup};
use crate::io::{AEv, AScript, RScript};
use crate::refdec::walk;
use crate::rng::Rng;
use crate::runner::{Check, ExecOk, Fail, Fp, Stats, Tier};
use crate::spec::SpecTable;
use crate::val::{bytes_from_j, bytes_to_j, TagV};

pub struct C20;

#[derive(Clone, Debug)]
pub struct Case {
    pub spec: SpecTable,
    pub input: Arc<Vec<u8>>,
    pub buffered: Vec<u64>,
    pub script: AScript,
    pub use_stream: bool,
    /// how many more calls the caller makes after an error (each further error counts; iteration stops at None)
    pub after_error: usize,
}

/// What the blocking iterator makes of the first `upto` bytes when the source then fails instead of
/// ending: the items completely contained in them (no closing Ends, nothing of an unfinished buffered master).
fn reference_prefix(c: &Case, upto: usize) -> RTrace {
    let cfg = IterCfg { buffered: c.buffered.clone(), eof_end: false, ..Default::default() };
    let input = Arc::new(c.input[..upto].to_vec());
    run_reader(&c.spec, &ReaderSetup { input, virtual_tail: 0, cfg: &cfg, script: &RScript::whole(), driver: &Driver::UntilEnd { extra: 0 }, max_steps: 4 * upto + 64, keep_read_log: false })
}

/// Calls made after an error: none in the sub-batch with an injected read failure (its reference is synthetic).
fn eff_after(c: &Case) -> usize {
    if c.script.events.iter().any(|e| matches!(e, AEv::Fail(_))) { 0 } else { c.after_error }
}

fn reference(c: &Case) -> RTrace {
    let cfg = IterCfg { buffered: c.buffered.clone(), ..Default::default() };
    let n = c.input.len();
    let after_error = eff_after(c);
    if after_error == 0 {
        return run_reader(&c.spec, &ReaderSetup { input: c.input.clone(), virtual_tail: 0, cfg: &cfg, script: &RScript::whole(), driver: &Driver::UntilEnd { extra: 0 }, max_steps: 4 * n + 64, keep_read_log: false });
    }
    // the same call history on the blocking iterator: on after each error, at most `after_error` times, stop at None
    let ops: Vec<crate::harness::DrvOp> = (0..4 * n + 64 + after_error).map(|_| crate::harness::DrvOp::Next).collect();
    let mut tr = run_reader(&c.spec, &ReaderSetup { input: c.input.clone(), virtual_tail: 0, cfg: &cfg, script: &RScript::whole(), driver: &Driver::Script(ops), max_steps: 4 * n + 64 + after_error, keep_read_log: false });
    let mut errs = 0usize;
    let mut cut = tr.evs.len();
    for (i, e) in tr.evs.iter().enumerate() {
        match e {
            Ev::None | Ev::Panic(_) => {
                cut = i + 1;
                break;
            }
            Ev::Err(_) => {
                if errs >= after_error {
                    cut = i + 1;
                    break;
                }
                errs += 1;
            }
            _ => {}
        }
    }
    tr.evs.truncate(cut);
    tr.step_cap_hit = false;
    tr
}

/// Cumulative bytes delivered after each completed read of the schedule (64 KiB transfer buffer).
fn delivered_after_reads(c: &Case, reads: usize) -> Vec<usize> {
    let total = c.input.len();
    let mut v = Vec::new();
    let mut pos = 0usize;
    let mut idx = 0usize;
    while v.len() < reads {
        let ev = if idx < c.script.events.len() {
            let e = c.script.events[idx].clone();
            idx += 1;
            e
        } else {
            AEv::Ready(if c.script.rest == 0 { usize::MAX } else { c.script.rest })
        };
        if let AEv::Ready(k) = ev {
            pos += k.max(1).min(65536).min(total - pos);
            v.push(pos);
        } else if let AEv::Fail(_) = ev {
            v.push(pos);
        }
    }
    v
}

/// Was some call made before the bytes its item needs had arrived? `need` of the k-th event of
/// the blocking run: the end of the next non-End tag at or after that event (everything for
/// Full items, errors and the final None) — a deliberately generous bound, see DESIGN C20.
pub fn starved(c: &Case, refr: &RTrace) -> Option<(usize, usize, usize)> {
    let total = c.input.len();
    let tags: Vec<TagV> = refr.ok_prefix().into_iter().map(|(t, _)| t).collect();
    let flat: Vec<TagV> = crate::val::flatten(&tags);
    let walked = walk(&c.spec, &c.input, &flat, 0).ok().map(|w| w.0);
    // end offset of each top-level event's own tag
    let mut own_end: Vec<Option<usize>> = Vec::new();
    match &walked {
        Some(w) => {
            let mut fi = 0usize;
            for t in &tags {
                if t.is_full() {
                    let mut tmp = Vec::new();
                    t.flatten_into(&mut tmp);
                    fi += tmp.len();
                    own_end.push(Some(total));
                } else {
                    let x = &w[fi];
                    fi += 1;
                    own_end.push(if t.is_end() { None } else { Some(x.off + x.hdr_len + if t.is_start() { 0 } else { x.size.unwrap_or(0) as usize }) });
                }
            }
        }
        None => own_end = tags.iter().map(|_| Some(total)).collect(),
    }
    let n_events = refr.evs.len();
    let mut need: Vec<usize> = vec![total; n_events];
    // events beyond the ok-prefix (error, None) need everything; fill the prefix from the back
    let mut next_need = total;
    for k in (0..tags.len().min(n_events)).rev() {
        if let Some(e) = own_end[k] {
            next_need = e;
        }
        need[k] = next_need.min(total);
    }
    let d = delivered_after_reads(c, n_events);
    for k in 0..n_events {
        if need[k] > d[k] {
            return Some((k, need[k], d[k]));
        }
    }
    None
}

fn strip(evs: &[Ev], ignore_offsets: bool) -> Vec<Ev> {
    evs.iter()
        .map(|e| match e {
            Ev::Tag(t, _) if ignore_offsets => Ev::Tag(t.clone(), usize::MAX),
            other => other.clone(),
        })
        .collect()
}

fn judge(c: &Case, refr: &RTrace, a: &ATrace) -> Result<(), Fail> {
    let ctx = || {
        let mut s: Vec<String> = a.evs.iter().take(40).map(|e| e.short()).collect();
        if a.evs.len() > 40 {
            s.push("…".into());
        }
        format!("blocking: {}\n async:    {}\n reads completed: {} ({:?}…), polls {}, pendings {}", refr.short(40), s.join(" "), a.reads, &a.split_sizes[..a.split_sizes.len().min(12)], a.polls, a.pendings)
    };
    if let Some(Ev::Panic(p)) = a.evs.last() {
        if refr.panic().is_none() {
            fail!("panic", "the async iterator panicked: {}\n {}", p, ctx());
        }
        return Ok(());
    }
    if let Some(e) = &a.exec_error {
        fail!("no-progress", "{}\n {}", e, ctx());
    }
    let want = strip(&refr.evs, c.use_stream);
    let mut got = strip(&a.evs, c.use_stream);
    // the harness asks next() twice more after the end (not the stream adapter, which must not be polled then): it ends once
    if !c.use_stream {
        let first_none = got.iter().position(|e| matches!(e, Ev::None));
        if let Some(k) = first_none {
            if let Some(bad) = got[k + 1..].iter().find(|e| !matches!(e, Ev::None)) {
                fail!("not-ended-once", "after next() had returned None, a further call returned {}\n {}", bad.short(), ctx());
            }
            got.truncate(k + 1);
        }
    }
    if want != got {
        let k = want.iter().zip(got.iter()).take_while(|(x, y)| x == y).count();
        fail!("differs-from-blocking", "event {}: blocking iterator gives {} but the async {} gives {}\n {}", k, want.get(k).map(|e| e.short()).unwrap_or("<end>".into()), if c.use_stream { "stream" } else { "iterator" }, got.get(k).map(|e| e.short()).unwrap_or("<end>".into()), ctx());
    }
    Ok(())
}

impl Check for C20 {
    type Case = Case;
    fn id(&self) -> &'static str {
        "C20"
    }
    fn num(&self) -> u64 {
        20
    }
    fn level(&self) -> &'static str {
        "exploration"
    }
    fn runs(&self, tier: Tier) -> u64 {
        match tier {
            Tier::Quick => 600_000,
            Tier::Thorough => 18_000_000,
        }
    }

    fn gen(&self, seed: u64, spec_seed: u64, tier: Tier) -> Case {
        let mut rng = Rng::new(seed);
        let spec = cases::spec_for(spec_seed, &SpecOpts::default());
        let mut fs = FaultStats::default();
        let mut doc = cases::doc_opts_for(tier, &mut rng);
        let big = rng.chance(1, 12);
        if big {
            // inputs larger than the 64 KiB transfer buffer
            doc.pay.max_len = 65537;
            doc.pay.boundary_pct = 50;
            doc.max_nodes = 12;
        } else {
            doc.pay.max_len = doc.pay.max_len.min(300);
        }
        // no random byte faults here: the async iterator has no way to lower the 4 GB size limit, so a
        // flipped size field would make both iterators allocate gigabytes (legitimately). Error paths are
        // covered by truncation and by structure-preserving faults that leave declared sizes alone.
        let io_o = InputOpts { doc: doc.clone(), faulted_pct: 0, truncated_pct: 15, random_pct: 0, soup_pct: 0, max_faults: 0, mid_document_pct: 10 };
        let mut gi = cases::gen_input(&mut rng, &spec, &io_o, &mut fs);
        if gi.class == "valid" && rng.chance(1, 8) {
            let d = crate::gen::gen_doc(&mut rng, &spec, &doc);
            loop {
                let (b, kind) = crate::checks::c06::structural_fault(&mut rng, &spec, &d);
                if kind != "fault_size_change" && kind != "fault_size_to_unknown" {
                    gi.bytes = b;
                    gi.class = "structural-fault";
                    break;
                }
            }
        }
        // one run in six: a valid document in which string payloads are made invalid UTF-8. That error consumes its
        // element, so a caller may step over it; the caller does (up to three times), on both iterators. (Going on
        // after other errors is not tried here: without a way to lower the async iterator's 4 GB limit, whatever the
        // parse then takes for a size could be allocated.)
        let mut after_error = 0usize;
        if rng.chance(1, 6) {
            let d = crate::gen::gen_doc(&mut rng, &spec, &doc);
            let mut e = crate::enc::encode(&d);
            let strs: Vec<usize> = (0..e.layout.elems.len()).filter(|i| spec.ty(e.layout.elems[*i].id) == Some(crate::spec::Ty::Utf8) && e.layout.elems[*i].size.map_or(false, |s| s >= 1)).collect();
            if !strs.is_empty() {
                for _ in 0..rng.range(1, 2) {
                    let el = e.layout.elems[*rng.pick(&strs)].clone();
                    e.bytes[el.data_start()] = 0xff;
                }
                gi.bytes = e.bytes;
                gi.class = "invalid-utf8";
                after_error = rng.range(1, 3);
            }
        }
        let n = gi.bytes.len();
        let buffered = if after_error > 0 { cases::gen_buffered(&mut rng, &spec, 70) } else { cases::gen_buffered(&mut rng, &spec, 25) };
        let mut events: Vec<AEv> = Vec::new();
        let mut rest = 0usize;
        let pend = *rng.pick(&[0u64, 0, 20, 50]);
        let mut push = |rng: &mut Rng, events: &mut Vec<AEv>, e: AEv| {
            while rng.below(100) < pend {
                events.push(if rng.chance(1, 2) { AEv::PendingWakeNow } else { AEv::PendingWakeLater });
            }
            events.push(e);
        };
        match rng.below(10) {
            0 | 1 | 2 => {
                // everything the buffer takes, per read
                for _ in 0..rng.range(1, 6) {
                    push(&mut rng, &mut events, AEv::Ready(usize::MAX));
                }
            }
            3 => rest = *rng.pick(&[1usize, 2, 3, 7, 16]),
            4 if n >= 2 => {
                // one split position
                let at = rng.range(1, n - 1);
                push(&mut rng, &mut events, AEv::Ready(at));
            }
            5 | 6 => {
                // a large head, then a dribble: bytes arrive ahead of consumption
                let head = (n * rng.range(50, 100)) / 100;
                push(&mut rng, &mut events, AEv::Ready(head.max(1)));
                rest = rng.range(1, 64);
            }
            _ => {
                let maxk = *rng.pick(&[1usize, 4, 16, 100, 5000, 70000]);
                let mut total = 0;
                while total < n && events.len() < 2000 {
                    let k = rng.range(1, maxk);
                    push(&mut rng, &mut events, AEv::Ready(k));
                    total += k;
                }
            }
        }
        // source fault: one run in eight has a read fail hard somewhere in the schedule (if the events do not
        // cover the input, the dribble before the fault is made explicit)
        if rng.chance(1, 8) {
            if rest > 0 && n > 0 {
                let upto = rng.range(0, n);
                let mut total: usize = events.iter().map(|e| if let AEv::Ready(k) = e { (*k).min(n) } else { 0 }).sum();
                while total < upto && events.len() < 3000 {
                    events.push(AEv::Ready(rest));
                    total += rest;
                }
                events.push(AEv::Fail(rng.below(4) as u8));
            } else {
                let at = rng.range(0, events.len());
                events.insert(at, AEv::Fail(rng.below(4) as u8));
            }
        }
        Case { spec, input: Arc::new(gi.bytes), buffered, script: AScript { events, rest }, use_stream: rng.chance(1, 3), after_error }
    }

    fn exec(&self, c: &Case, st: &mut Stats) -> Result<ExecOk, Fail> {
        let refr = reference(c);
        if refr.panic().is_some() || refr.step_cap_hit {
            st.inc("skipped_reference_not_total");
            return Ok(ExecOk { nontrivial: false });
        }
        let n = c.input.len();
        crate::spec::install(&c.spec);
        crate::alloc::arm();
        let a = run_async(&c.spec, &c.input, &c.buffered, &c.script, c.use_stream, 4 * n + 64 + c.after_error, eff_after(c));
        let usage = crate::alloc::disarm();
        st.max("max_peak_heap_growth_during_async_run", usage.peak as u64);
        st.max("max_single_allocation_during_async_run", usage.max_request as u64);
        st.add("polls", a.polls as u64);
        st.add("reads_completed", a.reads as u64);
        st.add("fault_pending_delivered", a.pendings as u64);
        st.add("api_calls", a.evs.len() as u64);
        st.inc(if c.use_stream { "stream_adapter_runs" } else { "next_runs" });
        if eff_after(c) > 0 && a.evs.iter().filter(|e| matches!(e, Ev::Err(_))).count() >= 1 && a.evs.iter().rposition(|e| matches!(e, Ev::Tag(..))) > a.evs.iter().position(|e| matches!(e, Ev::Err(_))) {
            st.inc("probe_items_after_stepping_over_an_error");
        }
        if n > 65536 {
            st.inc("probe_input_larger_than_transfer_buffer");
        }
        if a.split_sizes.iter().any(|s| *s == 1) {
            st.inc("probe_one_byte_reads");
        }
        let sv = starved(c, &refr);
        if sv.is_none() {
            st.inc("schedules_never_starved");
        } else {
            st.inc("schedules_with_a_starved_call");
        }
        // schedule class: where the async reads ended relative to the parsed structure
        if n <= 600 {
            let tags: Vec<TagV> = crate::val::flatten(&refr.ok_prefix().into_iter().map(|(t, _)| t).collect::<Vec<_>>());
            if let Ok((walked, _)) = walk(&c.spec, &c.input, &tags, 0) {
                let mut set: Vec<(u8, u8, u8)> = Vec::new();
                let mut pos = 0usize;
                for sz in &a.split_sizes {
                    pos += sz;
                    if pos < n {
                        let cl = crate::refdec::phase_at(&walked, pos);
                        if !set.contains(&cl) {
                            set.push(cl);
                        }
                    }
                }
                set.sort();
                let mut f = Fp::default();
                for (x, y, z) in &set {
                    f.u(*x as u64 | (*y as u64) << 8 | (*z as u64) << 16);
                    st.inc(match x {
                        0 => "probe_read_ends_on_tag_boundary",
                        1 => "probe_read_ends_inside_id",
                        2 => "probe_read_ends_inside_size_field",
                        3 => "probe_read_ends_inside_payload",
                        _ => "probe_read_ends_beyond_parsed_region",
                    });
                }
                f.u(c.use_stream as u64).u((a.pendings > 0) as u64).u(!c.buffered.is_empty() as u64).u(refr.first_error().is_some() as u64);
                st.class(f.0);
            }
        }
        if let Some((_at, _token)) = a.failures.first() {
            // The source failed. C20 speaks of how the bytes are split, not of failing sources, so the oracle is the narrow
            // one for injected faults: nothing wrong may come out. The items before the error must be a prefix of what the
            // blocking iterator makes of the whole input (how many of them come first is the wrapper's business: it may
            // read ahead), the failure must come out as a read error of the source's kind, and the run must not end as
            // if the input were complete.
            st.inc("fault_async_read_error_delivered");
            if let Some(Ev::Panic(p)) = a.evs.last() {
                fail!("panic", "the async iterator panicked after the source failed: {}", p);
            }
            if let Some(e) = &a.exec_error {
                fail!("no-progress", "{} (after an injected read error)", e);
            }
            let kind = c.script.events.iter().find_map(|e| if let AEv::Fail(k) = e { Some(*k) } else { None }).unwrap_or(0);
            let want_kind = format!("{:?}", crate::io::FAULT_KINDS[kind as usize % crate::io::FAULT_KINDS.len()]);
            let full = strip(&refr.evs, c.use_stream);
            let got = strip(&a.evs, c.use_stream);
            let items: Vec<&Ev> = got.iter().take_while(|e| matches!(e, Ev::Tag(..))).collect();
            for (i, e) in items.iter().enumerate() {
                if full.get(i) != Some(*e) {
                    fail!("wrong-item-before-read-error", "item {} before the injected read error is {} but the blocking iterator over the whole input gives {}", i, e.short(), full.get(i).map(|x| x.short()).unwrap_or("<end>".into()));
                }
            }
            match got.get(items.len()) {
                Some(Ev::Err(crate::val::ErrV::Read { kind, .. })) if *kind == want_kind => {
                    st.inc("probe_async_read_error_carried");
                }
                Some(Ev::None) | None if items.len() + 1 >= full.len() && refr.first_error().is_none() => {
                    // everything had been emitted before the failing read mattered
                    st.inc("async_read_error_after_everything_was_emitted");
                }
                other => fail!("read-error-lost", "the source failed with {} but after {} items the async iterator gives {} (the blocking iterator over the whole input: {})", want_kind, items.len(), other.map(|x| x.short()).unwrap_or("<nothing>".into()), refr.short(20)),
            }
            if items.len() > 0 {
                st.inc("probe_items_before_async_read_error");
            }
            return Ok(ExecOk { nontrivial: a.evs.len() >= 2 });
        }
        judge(c, &refr, &a)?;
        if sv.is_some() {
            st.inc("probe_starved_schedule_passed");
        }
        Ok(ExecOk { nontrivial: refr.evs.len() >= 3 && a.reads >= 2 })
    }

    fn classify(&self, c: &Case, f: &Fail) -> Option<String> {
        if f.clause == "panic" || f.clause == "no-progress" {
            return None;
        }
        let refr = reference(c);
        starved(c, &refr).map(|_| "async-starved-call".to_string())
    }

    fn fingerprint(&self, c: &Case) -> u64 {
        let mut f = Fp::default();
        f.bytes(&c.input).u(c.use_stream as u64).u(c.script.rest as u64).u(c.after_error as u64);
        for e in &c.script.events {
            f.u(match e {
                AEv::Ready(k) => *k as u64,
                AEv::PendingWakeNow => u64::MAX - 1,
                AEv::PendingWakeLater => u64::MAX - 2,
                AEv::Fail(k) => u64::MAX - 3 - *k as u64,
            });
        }
        for b in &c.buffered {
            f.u(*b);
        }
        f.0
    }

    fn to_j(&self, c: &Case) -> J {
        json!({"spec": c.spec.to_j(), "input": bytes_to_j(&c.input), "buffered": c.buffered.iter().map(|b| format!("{:x}", b)).collect::<Vec<_>>(), "script": c.script.to_j(), "use_stream": c.use_stream, "after_error": c.after_error})
    }

    fn from_j(&self, j: &J) -> Result<Case, String> {
        Ok(Case {
            spec: SpecTable::from_j(j.get("spec").ok_or("spec")?)?,
            input: Arc::new(bytes_from_j(j.get("input").ok_or("input")?)?),
            buffered: j.get("buffered").and_then(|v| v.as_array()).ok_or("buffered")?.iter().map(|v| u64::from_str_radix(v.as_str().unwrap_or("0"), 16).unwrap_or(0)).collect(),
            script: AScript::from_j(j.get("script").ok_or("script")?)?,
            use_stream: j.get("use_stream").and_then(|v| v.as_bool()).unwrap_or(false),
            after_error: j.get("after_error").and_then(|v| v.as_u64()).unwrap_or(0) as usize,
        })
    }

    fn shrink(&self, c: &Case) -> Vec<Case> {
        let mut v = Vec::new();
        if c.script.events.iter().any(|e| !matches!(e, AEv::Ready(_))) {
            let mut s = c.script.clone();
            s.events.retain(|e| matches!(e, AEv::Ready(_)));
            v.push(Case { script: s, ..c.clone() });
        }
        if !c.script.events.is_empty() {
            let mut s = c.script.clone();
            s.events.truncate(c.script.events.len() / 2);
            v.push(Case { script: s, ..c.clone() });
            if c.script.events.len() <= 16 {
                for i in 0..c.script.events.len() {
                    let mut s = c.script.clone();
                    s.events.remove(i);
                    v.push(Case { script: s, ..c.clone() });
                }
            }
        }
        if c.use_stream {
            v.push(Case { use_stream: false, ..c.clone() });
        }
        if c.after_error > 0 {
            v.push(Case { after_error: 0, ..c.clone() });
            v.push(Case { after_error: c.after_error - 1, ..c.clone() });
        }
        if !c.buffered.is_empty() {
            v.push(Case { buffered: vec![], ..c.clone() });
        }
        let n = c.input.len();
        let mut k = n / 2;
        while k >= 1 {
            v.push(Case { input: Arc::new(c.input[..n - k].to_vec()), ..c.clone() });
            k /= 2;
        }
        v
    }

    fn rule(&self) -> &'static str {
        "One case = specification + input (valid / truncated / byte-faulted; some larger than the 64 KiB transfer buffer) + buffered-id set + an async delivery schedule (fill-the-buffer reads, fixed small reads down to 1 byte, single split, large head then dribble, random compositions; Pending with immediate or deferred wake before a random subset of reads; in one run of eight one read fails with a hard I/O error; in one run of six string payloads are invalid UTF-8 and the caller steps over up to three such errors) driving TagIteratorAsync::next() or the into_stream() adapter on a single-threaded executor; events (items, offsets for next(), first error, single termination) must equal those of the blocking iterator over the same bytes; after an injected read error (outside the statement; narrow oracle): the items before it are a prefix of the blocking iterator's over the whole input, then a read error of the source's kind, never a clean end; lost wake-ups and poll budgets are detected. Non-trivial: at least 3 events and at least 2 completed reads. Distinct: FNV-1a fingerprint of bytes + schedule + buffered set. coverage.distinct_schedule_classes counts distinct sets of (parser phase at which an async read ended, nesting depth, innermost master kind) x adapter x Pending/buffered/error flags (inputs <= 600 bytes)."
    }
    fn assumptions(&self) -> Vec<&'static str> {
        vec![
            "offsets are not observable through the stream adapter and are not compared there",
            "counters.schedules_with_a_starved_call counts schedules in which some call was made before the bytes of the item it has to produce had arrived (the situation the original implementation could not handle, see known_findings.json: fixed); they are judged like all others",
        ]
    }
    fn expected_probes(&self) -> Vec<&'static str> {
        vec!["schedules_never_starved", "schedules_with_a_starved_call", "probe_input_larger_than_transfer_buffer", "probe_one_byte_reads", "fault_pending_delivered", "stream_adapter_runs", "next_runs", "fault_async_read_error_delivered", "probe_items_before_async_read_error", "probe_items_after_stepping_over_an_error"]
    }
}
