//! C06 — strict mode emits only well-nested, hierarchy-valid, size-contained sequences.
//! The successful items of a strict parse are replayed against an independent nesting / path /
//! extent checker; positions come from the checker's own tiling, not from reported offsets.

use std::sync::Arc;

use serde_json::Value as J;

use crate::cases::{self, ReadCase};
use crate::enc::{self, Node};
use crate::fail;
use crate::gen::{self, FaultStats, SpecOpts};
use crate::harness::{run_reader, Driver, Ev, IterCfg, MaxSz, ReaderSetup};
use crate::io;
use crate::refdec::walk;
use crate::rng::Rng;
use crate::runner::{Check, ExecOk, Fail, Stats, Tier};
use crate::spec::{ref_match, SpecTable, Ty};
use crate::val::TagV;

pub struct C06;

/// Structure-preserving faults placed with the layout: the bytes stay parsable so that the
/// parser gets far enough for the structural guarantees to matter.
pub fn structural_fault(rng: &mut Rng, spec: &SpecTable, doc: &[Node]) -> (Vec<u8>, &'static str) {
    let e = enc::encode(doc);
    let mut bytes = e.bytes.clone();
    let lay = &e.layout;
    if lay.elems.is_empty() {
        return (bytes, "valid");
    }
    let mut kind = "valid";
    match rng.below(6) {
        0 => {
            // id substitution by a specification id of the same length
            let i = rng.below(lay.elems.len() as u64) as usize;
            let el = &lay.elems[i];
            let same: Vec<u64> = spec.elems.iter().map(|x| x.id).filter(|x| *x != el.id && enc::id_bytes(*x).len() == el.id_len).collect();
            if !same.is_empty() {
                let nid = *rng.pick(&same);
                bytes[el.off..el.off + el.id_len].copy_from_slice(&enc::id_bytes(nid));
                kind = "fault_id_substitution";
            }
        }
        1 => {
            // size field nudged within its width
            let i = rng.below(lay.elems.len() as u64) as usize;
            let el = &lay.elems[i];
            if let Some(sz) = el.size {
                let maxv = (1u64 << (7 * el.size_len)) - 2;
                let nv = match rng.below(4) {
                    0 => sz.saturating_sub(1 + rng.below(3)),
                    1 => (sz + 1 + rng.below(3)).min(maxv),
                    2 => (sz + rng.below(64)).min(maxv),
                    _ => rng.below(maxv.min(300) + 1),
                };
                let v = enc::size_vint(nv, el.size_len);
                bytes[el.off + el.id_len..el.off + el.id_len + el.size_len].copy_from_slice(&v);
                kind = "fault_size_change";
            }
        }
        2 => {
            // size field → unknown-size marker (any element)
            let i = rng.below(lay.elems.len() as u64) as usize;
            let el = &lay.elems[i];
            let v = enc::unknown_size(el.size_len);
            bytes[el.off + el.id_len..el.off + el.id_len + el.size_len].copy_from_slice(&v);
            kind = "fault_size_to_unknown";
        }
        3 | 4 => {
            // move a whole encoded element to another tag boundary
            let i = rng.below(lay.elems.len() as u64) as usize;
            let el = lay.elems[i].clone();
            let chunk: Vec<u8> = bytes[el.off..el.end].to_vec();
            bytes.drain(el.off..el.end);
            let mut bounds: Vec<usize> = lay.elems.iter().map(|x| x.off).filter(|o| *o < el.off || *o >= el.end).map(|o| if o >= el.end { o - chunk.len() } else { o }).collect();
            bounds.push(bytes.len());
            let at = *rng.pick(&bounds);
            let tail = bytes.split_off(at);
            bytes.extend_from_slice(&chunk);
            bytes.extend_from_slice(&tail);
            kind = "fault_element_moved";
        }
        _ => {
            // duplicate an element at a boundary
            let i = rng.below(lay.elems.len() as u64) as usize;
            let el = lay.elems[i].clone();
            let chunk: Vec<u8> = bytes[el.off..el.end].to_vec();
            let j = rng.below(lay.elems.len() as u64) as usize;
            let at = lay.elems[j].off;
            let tail = bytes.split_off(at);
            bytes.extend_from_slice(&chunk);
            bytes.extend_from_slice(&tail);
            kind = "fault_element_duplicated";
        }
    }
    (bytes, kind)
}

struct Open {
    id: u64,
    end: Option<usize>,
}

pub fn check_structure(spec: &SpecTable, input: &[u8], tags: &[TagV], clean_end: bool, st: &mut Stats) -> Result<bool, Fail> {
    let (walked, final_cur) = match walk(spec, input, tags, 0) {
        Ok(w) => w,
        Err(_) => {
            // items do not mirror the bytes: that is C03's finding, nothing to build on here
            st.inc("skipped_unwalkable");
            return Ok(false);
        }
    };
    let mut stack: Vec<Open> = Vec::new();
    let mut implied: Vec<u64> = Vec::new();
    let mut determined = false;
    let mut cur = 0usize;
    for (i, w) in walked.iter().enumerate() {
        let t = &w.tag;
        if t.is_end() {
            if let Some(top) = stack.last() {
                if top.id != t.id {
                    fail!("end-mismatch", "item {}: End of {:x} while the innermost open master is {:x}", i, t.id, top.id);
                }
                if let Some(end) = top.end {
                    if cur != end && cur != input.len() {
                        fail!("known-size-end-misplaced", "item {}: End of known-size master {:x} emitted at offset {} but its range ends at {} (input length {})", i, t.id, cur, end, input.len());
                    }
                    st.inc("probe_known_size_end");
                } else {
                    st.inc("probe_unknown_size_end");
                }
                stack.pop();
            } else {
                if !determined {
                    fail!("end-without-start", "item {}: End of {:x} with no master open and no position determined yet", i, t.id);
                }
                // implied ancestors lie outside every explicitly opened master
                match implied.pop() {
                    Some(id) if id == t.id => st.inc("probe_implied_ancestor_end"),
                    other => fail!("implied-end-mismatch", "item {}: End of {:x} with no Start open; the next implied ancestor is {:x?}", i, t.id, other),
                }
            }
            continue;
        }
        // a non-End item at w.off
        for m in &stack {
            if let Some(end) = m.end {
                if w.off >= end {
                    fail!("known-size-not-closed", "item {}: element {:x} starts at {} although known-size master {:x} (range end {}) is still open", i, t.id, w.off, m.id, end);
                }
            }
        }
        let Some(ed) = spec.get(t.id) else {
            fail!("id-not-in-specification", "item {}: strict mode emitted id {:x}, which the specification does not contain", i, t.id);
        };
        {
            // the header always counts; the payload when the size is known
            let ext_end = w.off + w.hdr_len + w.size.unwrap_or(0) as usize;
            for m in &stack {
                if let Some(end) = m.end {
                    if ext_end > end {
                        fail!("overruns-known-size-ancestor", "item {}: element {:x} at {} extends to {} beyond the end {} of open known-size master {:x}", i, t.id, w.off, ext_end, end, m.id);
                    }
                }
            }
        }
        if !determined && !ed.has_global() {
            // the first element with a placeholder-free path fixes the position: its declared
            // parents are implied, outside whatever (global) masters were opened before it
            implied = ed.path.iter().map(|p| if let ebml_iterable::specs::PathPart::Id(x) = p { *x } else { unreachable!() }).collect();
            determined = true;
            if !implied.is_empty() {
                st.inc("probe_mid_document_start");
            }
            if !stack.is_empty() {
                st.inc("probe_masters_open_before_position_known");
            }
        }
        if determined {
            let mut chain: Vec<u64> = implied.clone();
            chain.extend(stack.iter().map(|m| m.id));
            if !ref_match(&ed.path, &chain) {
                fail!("hierarchy", "item {}: element {:x} (declared path {:?}) emitted under the open chain {:x?}", i, t.id, ed.path, chain);
            }
            st.inc("hierarchy_checks");
        }
        if t.is_start() {
            if ed.ty != Ty::Master {
                fail!("start-of-non-master", "item {}: Start item for {:x}", i, t.id);
            }
            stack.push(Open { id: t.id, end: w.size.map(|s| w.off + w.hdr_len + s as usize) });
            cur = w.off + w.hdr_len;
        } else {
            cur = w.off + w.hdr_len + w.size.unwrap_or(0) as usize;
        }
    }
    let _ = final_cur;
    if clean_end && (!stack.is_empty() || !implied.is_empty()) {
        fail!("unclosed-at-end-of-input", "the parse ended normally but masters {:x?} (implied ancestors {:x?}) never received their End", stack.iter().map(|m| m.id).collect::<Vec<_>>(), implied);
    }
    Ok(walked.iter().filter(|w| !w.tag.is_end()).count() >= 2)
}

/// Tag boundaries as an unbuffered slice run with closing off sees them.
fn pause_bounds(rc: &ReadCase) -> Vec<usize> {
    let unb = IterCfg { buffered: vec![], eof_end: false, capacity: None, ..rc.cfg.clone() };
    crate::harness::slice_run(&rc.spec, &rc.input, &unb).ok_prefix().iter().filter(|(t, o)| !t.is_end() && *o > 0).map(|(_, o)| *o).collect()
}

impl Check for C06 {
    type Case = ReadCase;
    fn id(&self) -> &'static str {
        "C06"
    }
    fn num(&self) -> u64 {
        6
    }
    fn level(&self) -> &'static str {
        "exploration"
    }
    fn runs(&self, tier: Tier) -> u64 {
        match tier {
            Tier::Quick => 2_500_000,
            Tier::Thorough => 75_000_000,
        }
    }

    fn gen(&self, seed: u64, spec_seed: u64, tier: Tier) -> ReadCase {
        let mut rng = Rng::new(seed);
        let spec = cases::spec_for(spec_seed, &SpecOpts { global_masters: true, shapes: true, ..Default::default() });
        let mut doc_o = cases::doc_opts_for(tier, &mut rng);
        doc_o.unknown_pct = *rng.pick(&[0u64, 30, 60, 90]);
        doc_o.pay.max_len = doc_o.pay.max_len.min(300);
        let doc = gen::gen_doc(&mut rng, &spec, &doc_o);
        let mut fs = FaultStats::default();
        let (bytes, class) = match rng.below(10) {
            0 | 1 => (enc::encode(&doc).bytes, "valid"),
            2 | 3 => {
                // start in the middle of the document, at an element boundary
                let e = enc::encode(&doc);
                let offs: Vec<usize> = e.layout.elems.iter().map(|x| x.off).collect();
                let at = *rng.pick(&offs);
                (e.bytes[at..].to_vec(), "mid-document")
            }
            4 => {
                let mut b = enc::encode(&doc).bytes;
                gen::byte_faults(&mut rng, &mut b, 3, &mut fs);
                (b, "byte-faulted")
            }
            _ => {
                structural_fault(&mut rng, &spec, &doc)
            }
        };
        let mut cfg = IterCfg::default();
        cfg.max_size = MaxSz::Limit(1 << 20);
        cfg.capacity = io::gen_capacity(&mut rng, bytes.len());
        crate::harness::gen_cfg_history(&mut rng, &mut cfg);
        let script = io::gen_rscript(&mut rng, bytes.len(), &[]);
        // "any parse": one case in four asks for some masters as Full items (judged on their flattening), and one
        // in eight is a streaming parse (closing off, temporary end-of-file reports at tag boundaries, the caller
        // polling on)
        cfg.buffered = cases::gen_buffered(&mut rng, &spec, 25);
        let mut rc = ReadCase { spec, input: Arc::new(bytes), cfg, script, driver: Driver::UntilEnd { extra: 0 }, class };
        if rng.chance(1, 8) && !rc.input.is_empty() {
            let bounds = pause_bounds(&rc);
            if !bounds.is_empty() {
                rc.cfg.eof_end = false;
                rc.driver = Driver::Streaming { extra: 0 };
                for _ in 0..rng.range(1, 4) {
                    let b = *rng.pick(&bounds);
                    for _ in 0..rng.range(1, 2) {
                        rc.script.pauses.push(b);
                    }
                }
            }
        }
        rc
    }

    fn exec(&self, rc: &ReadCase, st: &mut Stats) -> Result<ExecOk, Fail> {
        let streaming = matches!(rc.driver, Driver::Streaming { .. });
        if rc.cfg.allow != 0 || (!rc.cfg.eof_end && !streaming) || (streaming && rc.cfg.eof_end) || (!streaming && !rc.script.pauses.is_empty()) {
            st.inc("out_of_scope");
            return Ok(ExecOk { nontrivial: false });
        }
        if streaming {
            // temporary end of file is in scope at tag boundaries only (matters for shrunk cases)
            let bounds = pause_bounds(rc);
            if rc.script.pauses.iter().any(|p| !bounds.contains(p)) {
                st.inc("out_of_scope");
                return Ok(ExecOk { nontrivial: false });
            }
            st.inc("streaming_runs");
        }
        if !rc.cfg.buffered.is_empty() {
            st.inc("runs_with_buffered_masters");
        }
        let n = rc.input.len();
        let tr = run_reader(&rc.spec, &ReaderSetup { input: rc.input.clone(), virtual_tail: 0, cfg: &rc.cfg, script: &rc.script, driver: &rc.driver, max_steps: 4 * n + 64, keep_read_log: false });
        st.add("api_calls", tr.api_calls as u64);
        st.add("read_calls", tr.read_calls as u64);
        st.add("fault_short_reads", tr.rstats.short_reads);
        st.inc(match rc.class {
            "valid" => "input_valid",
            "mid-document" => "input_mid_document",
            "byte-faulted" => "input_byte_faulted",
            "replayed" => "input_replayed",
            other => other,
        });
        if tr.panic().is_some() || tr.budget_exceeded || tr.step_cap_hit {
            st.inc("skipped_not_total");
            return Ok(ExecOk { nontrivial: false });
        }
        let tags: Vec<TagV> = crate::val::flatten(&tr.ok_prefix().into_iter().map(|(t, _)| t).collect::<Vec<_>>());
        // (a streaming parse has closing off: its end is not "the input ends" in the property's sense, nothing is closed)
        let clean = !streaming && matches!(tr.evs.last(), Some(Ev::None)) && tr.first_error().is_none();
        if clean {
            st.inc("clean_ends");
        } else {
            st.inc("error_ends");
        }
        let nt = check_structure(&rc.spec, &rc.input, &tags, clean, st).map_err(|f| Fail::new(&f.clause, format!("{}\n trace: {}", f.detail, tr.short(60))))?;
        Ok(ExecOk { nontrivial: nt })
    }

    fn fingerprint(&self, c: &ReadCase) -> u64 {
        c.fingerprint()
    }
    fn to_j(&self, c: &ReadCase) -> J {
        c.to_j()
    }
    fn from_j(&self, j: &J) -> Result<ReadCase, String> {
        ReadCase::from_j(j)
    }
    fn shrink(&self, c: &ReadCase) -> Vec<ReadCase> {
        c.shrink(true)
    }
    fn rule(&self) -> &'static str {
        "One case = specification + bytes (valid documents mixing known- and unknown-size masters; the same with one structure-preserving fault placed via the layout: id substitution, size change, size→unknown marker, whole element moved or duplicated; byte-faulted; documents cut to start at an inner element) read in strict mode under a random delivery schedule; one case in four with some masters requested as Full items (judged on their flattening), one in eight as a streaming parse (closing off, temporary end-of-file reports at tag boundaries, the caller polling on; the end of such a parse closes nothing and is not judged). The successful items are replayed against an independent nesting / declared-path (NFA) / extent checker. Non-trivial: at least two non-End items were emitted and checked. Distinct: FNV-1a fingerprint of bytes + schedule."
    }
    fn assumptions(&self) -> Vec<&'static str> {
        vec![
            "positions come from the checker's own tiling; runs whose items do not mirror the bytes are left to C03",
            "hierarchy is judged from the first element whose declared path has no placeholder, as the property says; its declared parents are taken as implied ancestors lying outside any (global) master opened before it",
            "whether an unknown-size master's End is emitted at the right moment is C07's subject; here a missing close shows up as a hierarchy violation of the following element",
        ]
    }
    fn expected_probes(&self) -> Vec<&'static str> {
        vec!["probe_known_size_end", "probe_unknown_size_end", "probe_implied_ancestor_end", "probe_mid_document_start", "fault_element_moved", "fault_id_substitution", "clean_ends", "error_ends", "streaming_runs", "runs_with_buffered_masters"]
    }
}
