//! C07 — unknown-size masters end where EBML says; same tags as the known-size encoding.

use std::sync::Arc;

use serde_json::{json, Value as J};

use crate::cases;
use crate::enc::{self, Body, Node};
use crate::fail;
use crate::gen::{self, SpecOpts};
use crate::harness::{run_reader, run_writer, Driver, Ev, IterCfg, ReaderSetup};
use crate::io::{self, RScript, WScript};
use crate::refdec::{ref_decode, DecStop};
use crate::rng::Rng;
use crate::runner::{Check, ExecOk, Fail, Fp, Stats, Tier};
use crate::spec::SpecTable;
use crate::val::{TagV, Val};
use crate::wcases::{self, PresentOpts};

pub struct C07;

#[derive(Clone, Debug)]
pub struct Case {
    pub spec: SpecTable,
    pub doc: Vec<Node>,
    /// try every subset of masters as unknown-size (≤ 7 eligible masters), not only `doc`'s flags
    pub sweep: bool,
    /// produce the bytes with the real writer instead of the reference encoder
    pub via_writer: bool,
    pub capacity: Option<usize>,
    pub rscript: RScript,
    /// tolerated error classes: the documents are valid, so tolerating anything must not change what is read
    pub allow: u8,
}

/// The property's own exclusion, made precise: an element directly after the end of an unknown-size master that does
/// not end it by the closing rule (placeholder paths, ids outside the specification), anything after an unknown-size
/// master whose own path has a placeholder, and an element that by itself ends an unknown-size master it stands in.
pub fn ambiguous(spec: &SpecTable, doc: &[Node]) -> bool {
    // chain: (id, unknown-size) of the masters enclosing `sibs`
    fn rec(spec: &SpecTable, sibs: &[Node], chain: &mut Vec<(u64, bool)>) -> bool {
        for (i, n) in sibs.iter().enumerate() {
            // nothing that by itself ends a master of the trailing unknown-size run it stands in
            let rs = chain.iter().rposition(|x| !x.1).map_or(0, |k| k + 1);
            if (rs..chain.len()).any(|k| crate::refdec::ends_master(spec, chain[k].0, n.id)) {
                return true;
            }
            if n.is_master() && n.enc.unknown {
                if let Some(next) = sibs.get(i + 1) {
                    // only something that ends N can follow N; a master with a placeholder path stays last
                    if spec.get(n.id).map_or(true, |d| d.has_global()) || !crate::refdec::ends_master(spec, n.id, next.id) {
                        return true;
                    }
                }
            }
            if n.is_master() {
                chain.push((n.id, n.enc.unknown));
                let r = rec(spec, n.children(), chain);
                chain.pop();
                if r {
                    return true;
                }
            }
        }
        false
    }
    rec(spec, doc, &mut Vec::new())
}

fn eligible_masters(spec: &SpecTable, doc: &[Node]) -> Vec<Vec<usize>> {
    fn rec(spec: &SpecTable, sibs: &[Node], prefix: &mut Vec<usize>, out: &mut Vec<Vec<usize>>) {
        for (i, n) in sibs.iter().enumerate() {
            prefix.push(i);
            if n.is_master() && !spec.get(n.id).map(|e| e.has_global()).unwrap_or(true) {
                out.push(prefix.clone());
            }
            rec(spec, n.children(), prefix, out);
            prefix.pop();
        }
    }
    let mut out = Vec::new();
    rec(spec, doc, &mut Vec::new(), &mut out);
    out
}

fn node_at<'a>(doc: &'a mut [Node], path: &[usize]) -> &'a mut Node {
    let (first, rest) = path.split_first().unwrap();
    let n = &mut doc[*first];
    if rest.is_empty() {
        n
    } else {
        match &mut n.body {
            Body::Master(cs) => node_at(cs, rest),
            _ => unreachable!(),
        }
    }
}

/// Classifies, from the layout alone, what closes each unknown-size master (coverage probes).
fn closing_probes(e: &enc::Encoded, total: usize, st: &mut Stats) {
    let lay = &e.layout;
    for (i, m) in lay.elems.iter().enumerate() {
        if !m.is_master || m.size.is_some() {
            continue;
        }
        let anc = lay.ancestors(i);
        if anc.iter().any(|a| lay.elems[*a].size.is_some() && lay.elems[*a].end == m.end) {
            st.inc("probe_closed_by_known_size_parent_exhaustion");
            continue;
        }
        if m.end == total {
            st.inc("probe_closed_by_end_of_input");
            continue;
        }
        // the next element in document order after m's subtree
        let Some(x) = lay.elems.iter().find(|x| x.off == m.end) else { continue };
        if x.parent == m.parent {
            if x.id == m.id {
                st.inc("probe_closed_by_new_instance_of_itself");
            } else {
                st.inc("probe_closed_by_sibling");
            }
        } else if x.parent.is_none() {
            st.inc("probe_closed_by_root_element");
            if m.depth >= 2 {
                st.inc("probe_closed_by_root_from_depth_2plus");
            }
        } else {
            // x belongs to an enclosing level: m is closed because an enclosing unknown-size master is
            let levels = m.depth - x.depth;
            st.inc("probe_closed_via_enclosing_unknown_master");
            if levels >= 2 {
                st.inc("probe_closed_via_enclosing_2plus_levels");
            }
            if anc.iter().any(|a| lay.elems[*a].id == x.id) {
                st.inc("probe_closed_by_new_instance_of_ancestor");
            }
        }
    }
}

fn check_variant(c: &Case, v: &[Node], expected: &[TagV], st: &mut Stats) -> Result<(), Fail> {
    let bytes = if c.via_writer {
        // the writer picks payload encodings itself: non-canonical choices are dropped
        let mut ops = Vec::new();
        let mut r = Rng::new(7);
        wcases::present(&mut r, v, &PresentOpts { full_pct: 0, deprecated_pct: 0, write_raw_pct: 0 }, &mut ops);
        let wt = run_writer(&c.spec, &ops, &WScript::default(), true);
        if !wt.all_ok() {
            st.inc("skipped_writer_rejected");
            return Ok(());
        }
        st.inc("variants_via_writer");
        wt.out
    } else {
        st.inc("variants_via_reference_encoder");
        enc::encode(v).bytes
    };
    let (rd, stop) = ref_decode(&c.spec, &bytes);
    if stop != DecStop::Clean || rd != expected {
        // the reference decoder does not read the tree back: the document is outside the rules as
        // modelled (should not happen; counted so that it cannot go unnoticed)
        st.inc("skipped_reference_decoder_disagrees");
        return Ok(());
    }
    if !c.via_writer {
        closing_probes(&enc::encode(v), bytes.len(), st);
    }
    let n = bytes.len();
    let input = Arc::new(bytes);
    let cfg = IterCfg { capacity: c.capacity, allow: c.allow, ..Default::default() };
    let tr = run_reader(&c.spec, &ReaderSetup { input: input.clone(), virtual_tail: 0, cfg: &cfg, script: &c.rscript, driver: &Driver::UntilEnd { extra: 0 }, max_steps: 4 * n + 64, keep_read_log: false });
    st.add("api_calls", tr.api_calls as u64);
    st.add("read_calls", tr.read_calls as u64);
    st.inc("variants");
    let unknown: Vec<String> = {
        let mut u = Vec::new();
        for n in v {
            n.visit(&mut |x, d| if x.is_master() && x.enc.unknown { u.push(format!("{:x}@depth{}", x.id, d)) }, 0);
        }
        u
    };
    if let Some(p) = tr.panic() {
        fail!("panic", "panicked: {}", p);
    }
    let got: Vec<TagV> = tr.tags().into_iter().map(|(t, _)| t).collect();
    let k = got.iter().zip(expected.iter()).take_while(|(a, b)| a == b).count();
    if let Some(e) = tr.first_error() {
        fail!("read-error", "unknown-size masters {:?}: after {} of {} tags the strict reader reports {}\n bytes: {}\n expected: {}\n trace: {}", unknown, k, expected.len(), e.short(), if n <= 100 { crate::val::hex(&input) } else { format!("[{} bytes]", n) }, expected.iter().map(|t| t.short()).collect::<Vec<_>>().join(" "), tr.short(60));
    }
    if got != expected {
        fail!("differs-from-known-size-encoding", "unknown-size masters {:?}: tag {} should be {} but is {}\n bytes: {}\n expected: {}\n trace: {}", unknown, k, expected.get(k).map(|t| t.short()).unwrap_or("<end>".into()), got.get(k).map(|t| t.short()).unwrap_or("<end>".into()), if n <= 100 { crate::val::hex(&input) } else { format!("[{} bytes]", n) }, expected.iter().map(|t| t.short()).collect::<Vec<_>>().join(" "), tr.short(60));
    }
    if !matches!(tr.evs.last(), Some(Ev::None)) {
        fail!("no-clean-end", "the read did not end with None");
    }
    Ok(())
}

impl Check for C07 {
    type Case = Case;
    fn id(&self) -> &'static str {
        "C07"
    }
    fn num(&self) -> u64 {
        7
    }
    fn level(&self) -> &'static str {
        "exploration"
    }
    fn runs(&self, tier: Tier) -> u64 {
        match tier {
            Tier::Quick => 800_000,
            Tier::Thorough => 24_000_000,
        }
    }

    fn gen(&self, seed: u64, spec_seed: u64, tier: Tier) -> Case {
        let mut rng = Rng::new(seed);
        let so = SpecOpts { max_depth: 6, ..Default::default() };
        let spec = cases::spec_for(spec_seed, &so);
        let mut o = cases::doc_opts_for(tier, &mut rng);
        o.unknown_pct = *rng.pick(&[30u64, 60, 90, 100]);
        o.pay.max_len = 24;
        o.pay.boundary_pct = 0;
        o.raw_pct = 0;
        let sweep = rng.chance(1, 4);
        if sweep {
            o.max_nodes = 14;
            // the sweep changes the flags, so keep placeholder-pathed elements out of positions
            // that could become ambiguous: no global elements at all in sweep documents
            o.globals = false;
        }
        let via_writer = rng.chance(1, 3);
        if via_writer {
            o.noncanonical_pct = 0;
        }
        let doc = gen::gen_doc(&mut rng, &spec, &o);
        let n = enc::encode(&doc).bytes.len();
        Case { spec, doc, sweep, via_writer, capacity: io::gen_capacity(&mut rng, n), rscript: io::gen_rscript(&mut rng, n, &[]), allow: if rng.chance(1, 3) { rng.below(8) as u8 } else { 0 } }
    }

    fn exec(&self, c: &Case, st: &mut Stats) -> Result<ExecOk, Fail> {
        let mut expected = enc::flatten_doc(&c.doc);
        if !c.via_writer {
            // f32 encodings round the value; the encoder's item list has the rounded ones
            expected = enc::encode(&c.doc).items;
        }
        // The statement is relative: "reads as the same tag sequence as the all-known-size encoding". A reader that gets
        // that encoding wrong too (a matcher or a payload-decoding defect) is some other property's case: counted, left alone.
        {
            let mut k = c.doc.clone();
            gen::strip_unknown(&mut k);
            let mut scratch = Stats::default();
            if check_variant(c, &k, &expected, &mut scratch).is_err() {
                st.inc("known_size_encoding_not_read_as_the_tree_left_to_other_checks");
                return Ok(ExecOk { nontrivial: false });
            }
        }
        let masters = eligible_masters(&c.spec, &c.doc);
        let mut nontrivial = false;
        if c.sweep && masters.len() <= 7 {
            st.inc("sweeps");
            for mask in 0..(1u32 << masters.len()) {
                let mut v = c.doc.clone();
                for (b, p) in masters.iter().enumerate() {
                    let n = node_at(&mut v, p);
                    n.enc.unknown = mask & (1 << b) != 0;
                    if n.enc.unknown {
                        n.enc.size_w = 0;
                    }
                }
                if !v.iter().all(enc::encodable) {
                    for n in v.iter_mut() {
                        n.visit_mut(&mut |x| {
                            if !x.enc.unknown {
                                x.enc.size_w = 0;
                            }
                        });
                    }
                }
                if ambiguous(&c.spec, &v) {
                    st.inc("skipped_ambiguous_variants");
                    continue;
                }
                if mask != 0 {
                    nontrivial = true;
                }
                check_variant(c, &v, &expected, st).map_err(|f| Fail::new(&f.clause, format!("[sweep member mask {:#b}] {}", mask, f.detail)))?;
            }
        } else {
            if ambiguous(&c.spec, &c.doc) {
                st.inc("skipped_ambiguous_variants");
                return Ok(ExecOk { nontrivial: false });
            }
            let any_unknown = c.doc.iter().any(|n| {
                let mut u = false;
                n.visit(&mut |x, _| u |= x.is_master() && x.enc.unknown, 0);
                u
            });
            nontrivial = any_unknown;
            check_variant(c, &c.doc, &expected, st)?;
            // and the all-known-size encoding of the same tree
            let mut k = c.doc.clone();
            gen::strip_unknown(&mut k);
            check_variant(c, &k, &expected, st).map_err(|f| Fail::new(&f.clause, format!("[all-known-size encoding] {}", f.detail)))?;
        }
        Ok(ExecOk { nontrivial })
    }

    fn fingerprint(&self, c: &Case) -> u64 {
        let mut f = Fp::default();
        f.bytes(&enc::encode(&c.doc).bytes).u(c.sweep as u64).u(c.via_writer as u64).u(c.allow as u64);
        for e in &c.spec.elems {
            f.u(e.id).u(e.ty as u64).u(e.path.len() as u64);
        }
        f.0
    }

    fn to_j(&self, c: &Case) -> J {
        json!({"spec": c.spec.to_j(), "doc": enc::doc_to_j(&c.doc), "sweep": c.sweep, "via_writer": c.via_writer, "capacity": c.capacity, "rscript": c.rscript.to_j(), "allow": c.allow})
    }

    fn from_j(&self, j: &J) -> Result<Case, String> {
        Ok(Case {
            spec: SpecTable::from_j(j.get("spec").ok_or("spec")?)?,
            doc: enc::doc_from_j(j.get("doc").ok_or("doc")?)?,
            sweep: j.get("sweep").and_then(|v| v.as_bool()).unwrap_or(false),
            via_writer: j.get("via_writer").and_then(|v| v.as_bool()).unwrap_or(false),
            capacity: j.get("capacity").and_then(|c| c.as_u64()).map(|c| c as usize),
            allow: j.get("allow").and_then(|c| c.as_u64()).unwrap_or(0) as u8,
            rscript: RScript::from_j(j.get("rscript").ok_or("rscript")?)?,
        })
    }

    fn shrink(&self, c: &Case) -> Vec<Case> {
        let mut v = Vec::new();
        if c.sweep {
            let masters = eligible_masters(&c.spec, &c.doc);
            if masters.len() <= 7 {
                for mask in 0..(1u32 << masters.len()) {
                    let mut d = c.doc.clone();
                    for (b, p) in masters.iter().enumerate() {
                        let n = node_at(&mut d, p);
                        n.enc.unknown = mask & (1 << b) != 0;
                        if n.enc.unknown {
                            n.enc.size_w = 0;
                        }
                    }
                    v.push(Case { doc: d, sweep: false, ..c.clone() });
                }
            }
            return v;
        }
        if c.allow != 0 {
            v.push(Case { allow: 0, ..c.clone() });
        }
        if !c.rscript.is_whole() || c.capacity.is_some() {
            v.push(Case { rscript: RScript::whole(), capacity: None, ..c.clone() });
        }
        if c.via_writer {
            v.push(Case { via_writer: false, ..c.clone() });
        }
        for d in cases::shrink_doc(&c.doc) {
            v.push(Case { doc: d, ..c.clone() });
        }
        // clear single unknown flags
        let masters = eligible_masters(&c.spec, &c.doc);
        for p in &masters {
            let mut d = c.doc.clone();
            let n = node_at(&mut d, p);
            if n.enc.unknown {
                n.enc.unknown = false;
                v.push(Case { doc: d, ..c.clone() });
            }
        }
        if let Some(s) = cases::prune_spec(&c.spec, &c.doc, &[]) {
            v.push(Case { spec: s, ..c.clone() });
        }
        v
    }

    fn rule(&self) -> &'static str {
        "One case = specification (depth up to 6) + tag tree + a choice of which masters are unknown-size (random subset, or ALL 2^m subsets when the tree has at most 7 eligible masters), encoded by the reference encoder or by the real writer, read under a drawn schedule, strictly or (one case in three) with a drawn set of error classes tolerated, which must make no difference on these valid documents; the tag sequence must equal the tree's flattening (= the all-known-size encoding, which is read too). Variants the property excludes (placeholder-pathed element directly after an unknown-size master) are skipped and counted. Non-trivial: at least one master is unknown-size. Distinct: FNV-1a fingerprint of the encoded document + flags + specification."
    }
    fn assumptions(&self) -> Vec<&'static str> {
        vec![
            "the sweep flips only masters whose declared path has no placeholder; drawn documents also give unknown size to masters with placeholder paths, as last child of their parent",
            "the reference decoder (ref_decode) must read the tree back, otherwise the variant is skipped and counted as a harness anomaly",
        ]
    }
    fn expected_probes(&self) -> Vec<&'static str> {
        vec![
            "probe_closed_by_sibling",
            "probe_closed_by_new_instance_of_itself",
            "probe_closed_by_root_element",
            "probe_closed_by_root_from_depth_2plus",
            "probe_closed_via_enclosing_unknown_master",
            "probe_closed_via_enclosing_2plus_levels",
            "probe_closed_by_known_size_parent_exhaustion",
            "probe_closed_by_end_of_input",
            "sweeps",
            "variants_via_writer",
        ]
    }
}

pub fn _use(_: &Val) {}
