//! C17 — memory use is bounded by the configured tag size limit, whatever the input claims.
//! The allocator seam measures peak heap growth around the iteration; the source has a lazy
//! virtual tail so that a parser that believes a hostile size really can try to read it. Runs
//! execute in child processes because a refused allocation aborts.

use std::sync::Arc;

use serde_json::{json, Value as J};

use crate::alloc;
use crate::cases::{self, ReadCase};
use crate::enc;
use crate::fail;
use crate::gen::{self, SpecOpts};
use crate::harness::{run_reader, Driver, Ev, IterCfg, MaxSz, ReaderSetup};
use crate::io::{self, RScript};
use crate::rng::Rng;
use crate::runner::{Check, ExecOk, Fail, Stats, Tier};
use crate::spec::Ty;
use crate::val::ErrV;

pub struct C17;

pub const DEFAULT_LIMIT: u64 = 4_000_000_000;

#[derive(Clone, Debug)]
pub struct Case {
    pub rc: ReadCase,
    /// bytes that exist only on demand after `rc.input`
    pub virtual_tail: u64,
    /// the element under test: offset, id, declared size, whether its declared size is above the limit
    pub target_off: usize,
    pub target_id: u64,
    pub declared: u64,
    /// largest declared size (≤ limit) of any element in the input that may legitimately be read
    pub legit: u64,
    /// a long stream of in-limit elements (no hostile header): memory must stay bounded by the
    /// largest of them however many there are
    pub long_stream: bool,
}

fn limit_of(cfg: &IterCfg) -> Option<u64> {
    match cfg.max_size {
        MaxSz::Default => Some(DEFAULT_LIMIT),
        MaxSz::Unlimited => None,
        MaxSz::Limit(n) => Some(n as u64),
    }
}

/// The limit is set after a recovery, right before the tag the recovery stopped at is read: it must apply to that tag.
/// Judged only when the recovery did stop at the element under test (its header may be one the scan skips).
fn exec_late_limit(c: &Case, m: u64, st: &mut Stats) -> Result<ExecOk, Fail> {
    let n = c.rc.input.len();
    crate::spec::install(&c.rc.spec);
    alloc::arm();
    let tr = run_reader(&c.rc.spec, &ReaderSetup { input: c.rc.input.clone(), virtual_tail: c.virtual_tail, cfg: &c.rc.cfg, script: &c.rc.script, driver: &c.rc.driver, max_steps: 4 * n + 256, keep_read_log: false });
    let usage = alloc::disarm();
    let cap = (c.rc.cfg.capacity.unwrap_or(65536).max(16) as u64).max(tr.rstats.first_buf_offered as u64);
    let legit = if c.declared <= m { c.declared } else { 0 };
    let allowed = 8 * legit.max(cap).max(16) + 4096;
    st.add("api_calls", tr.api_calls as u64);
    st.add("read_calls", tr.read_calls as u64);
    st.inc("late_limit_runs");
    let ctx = || format!("limit {} set after try_recover(), capacity {:?}, element {:x} at offset {} declaring {} bytes\n trace: {}", m, c.rc.cfg.capacity, c.target_id, c.target_off, c.declared, tr.short(12));
    if let Some(p) = tr.panic() {
        fail!("panic", "{}; {}", p, ctx());
    }
    if tr.budget_exceeded || tr.step_cap_hit {
        fail!("no-termination", "{}", ctx());
    }
    let Some(k) = tr.evs.iter().position(|e| matches!(e, Ev::Cfg)) else {
        st.inc("late_limit_not_reached");
        return Ok(ExecOk { nontrivial: false });
    };
    // Where did the recovery stop? The next event tells. The case is judged only when it stopped at a master of the chain
    // IN FRONT of the element under test: whether a limit set after try_recover() also applies to the very header the
    // recovery has already looked at is not something the property decides (an implementation may keep what it validated).
    let junk_len = c.rc.input.len().saturating_sub(0).min(c.target_off); // offset of the first chain master = length of the junk
    let _ = junk_len;
    let stopped_before_target = match tr.evs.get(k + 1) {
        Some(Ev::Tag(t, o)) => *o < c.target_off && t.is_start(),
        _ => false,
    };
    // (and the first failure must be the junk itself, before anything was read under the old limit)
    let junk_failed = matches!(tr.evs.first(), Some(Ev::Err(ErrV::InvalidTagId { pos: 0, .. }))) && k == 2;
    if !stopped_before_target || !junk_failed {
        st.inc("late_limit_not_judged");
        return Ok(ExecOk { nontrivial: false });
    }
    st.inc("probe_late_limit_judged");
    let m_part = m.min(16 << 20);
    let allowed = allowed.max(8 * m_part + 4096);
    if usage.peak as u64 > allowed {
        fail!("heap-growth", "peak heap growth {} bytes (largest single request {}) exceeds {}; {}", usage.peak, usage.max_request, allowed, ctx());
    }
    if c.declared > m {
        if let Some(ev) = tr.evs[k + 1..].iter().find(|e| matches!(e, Ev::Tag(t, o) if *o == c.target_off && !t.is_end() && t.id == c.target_id)) {
            fail!("oversized-element-accepted", "the element above the limit that was set before it was read was emitted: {}; {}", ev.short(), ctx());
        }
        if tr.evs[k + 1..].iter().any(|e| matches!(e, Ev::Err(ErrV::InvalidTagSize { pos, .. }) if *pos == c.target_off)) {
            st.inc("probe_late_limit_enforced");
        }
    }
    Ok(ExecOk { nontrivial: true })
}

impl Check for C17 {
    type Case = Case;
    fn id(&self) -> &'static str {
        "C17"
    }
    fn num(&self) -> u64 {
        17
    }
    fn level(&self) -> &'static str {
        "exploration"
    }
    fn runs(&self, tier: Tier) -> u64 {
        match tier {
            Tier::Quick => 1_200_000,
            Tier::Thorough => 36_000_000,
        }
    }

    fn gen(&self, seed: u64, spec_seed: u64, _tier: Tier) -> Case {
        let mut rng = Rng::new(seed);
        let spec = cases::spec_for(spec_seed, &SpecOpts { static_pct: 15, ..Default::default() });
        // limit and capacity
        let (max_size, m): (MaxSz, u64) = match rng.below(8) {
            0 => (MaxSz::Default, DEFAULT_LIMIT),
            1 => (MaxSz::Limit(0), 0),
            2 => (MaxSz::Limit(1), 1),
            3 => (MaxSz::Limit(16), 16),
            4 => (MaxSz::Limit(1000), 1000),
            5 => (MaxSz::Limit(65536), 65536),
            6 => (MaxSz::Limit(1 << 20), 1 << 20),
            _ => {
                let v = rng.range(0, 300_000);
                (MaxSz::Limit(v), v as u64)
            }
        };
        if rng.chance(1, 60) {
            // long stream of in-limit Void elements of varying sizes, at root level or inside an unknown-size root
            let n = rng.range(50, 600);
            let max_sz = *rng.pick(&[200usize, 1000, 4000]);
            let mut bytes: Vec<u8> = Vec::new();
            if rng.chance(1, 2) {
                if let Some(root) = spec.elems.iter().find(|e| e.ty == Ty::Master && e.path.is_empty() && spec.allowed(crate::spec::VOID_ID, &[e.id])) {
                    bytes.extend_from_slice(&enc::id_bytes(root.id));
                    bytes.extend_from_slice(&enc::unknown_size(8));
                }
            }
            let mut legit = 0u64;
            for _ in 0..n {
                let sz = rng.range(0, max_sz);
                legit = legit.max(sz as u64);
                bytes.extend_from_slice(&enc::id_bytes(crate::spec::VOID_ID));
                bytes.extend_from_slice(&enc::size_vint(sz as u64, rng.range(enc::min_size_width(sz as u64), 4)));
                bytes.extend(std::iter::repeat(0u8).take(sz));
            }
            let lim = (legit as usize).max(m.min(65536) as usize);
            let mut cfg = IterCfg { max_size: MaxSz::Limit(lim), ..Default::default() };
            cfg.allow = cases::gen_allow(&mut rng, 40);
            cfg.capacity = Some(*rng.pick(&[0usize, 16, 64, 300, 1024, 4096]));
            let mut script = io::gen_rscript(&mut rng, 4096, &[]);
            script.rest = *rng.pick(&[0usize, 0, 777, 4096]);
            let rc = ReadCase { spec, input: Arc::new(bytes), cfg, script, driver: Driver::UntilEnd { extra: 0 }, class: "long-stream" };
            return Case { rc, virtual_tail: 0, target_off: 0, target_id: crate::spec::VOID_ID, declared: 0, legit, long_stream: true };
        }
        // a reachable chain of masters leading to the target element
        let mut chain: Vec<(u64, bool)> = Vec::new();
        let depth = rng.range(0, 3);
        let style = rng.below(3); // 0 all known, 1 all unknown, 2 mixed
        for _ in 0..depth {
            let ids: Vec<u64> = chain.iter().map(|c| c.0).collect();
            let cands: Vec<_> = spec.elems.iter().filter(|e| e.ty == Ty::Master && !e.has_global() && spec.allowed(e.id, &ids)).collect();
            if cands.is_empty() {
                break;
            }
            let e = *rng.pick(&cands);
            let unk = match style {
                0 => false,
                1 => true,
                _ => rng.chance(1, 2),
            };
            chain.push((e.id, unk));
        }
        let ids: Vec<u64> = chain.iter().map(|c| c.0).collect();
        // the target: an element allowed here (or, sometimes, any element / an id outside the spec)
        let allowed: Vec<_> = spec.elems.iter().filter(|e| spec.allowed(e.id, &ids)).collect();
        let (tid, _tty) = match rng.below(10) {
            0 => (gen::gen_id(&mut rng, 2), None),
            1 => {
                let e = rng.pick(&spec.elems);
                (e.id, Some(e.ty))
            }
            _ if !allowed.is_empty() => {
                let e = *rng.pick(&allowed);
                (e.id, Some(e.ty))
            }
            _ => {
                let e = rng.pick(&spec.elems);
                (e.id, Some(e.ty))
            }
        };
        // declared size: around the limit, powers of two, extremes
        let declared: u64 = match rng.below(10) {
            0 => 0,
            1 => m.saturating_sub(1),
            2 => m,
            3 => m.saturating_add(1),
            4 => m.saturating_mul(2),
            5 => 1u64 << rng.range(0, 55),
            6 => (1u64 << rng.range(20, 55)) + rng.below(1000),
            7 => (1u64 << 56) - 2,
            8 => rng.below(9),
            _ => m.saturating_add(rng.below(1 << 20)),
        }
        .min((1u64 << 56) - 2);
        // with the default limit, keep legitimately readable sizes small: an element within the limit may cost its size
        let declared = if declared <= m && declared > (8 << 20) { declared % (8 << 20) } else { declared };
        let min_w = enc::min_size_width(declared);
        let w = rng.range(min_w, 8);
        // bytes: chain headers, then the target header, then some payload
        let mut bytes: Vec<u8> = Vec::new();
        let target_hdr_len = enc::id_bytes(tid).len() + w;
        // sizes of known-size chain masters: accurate (covering the declared element), or hostile themselves
        let mut legit = 0u64;
        let mut inner_total = target_hdr_len as u64 + declared; // bytes the masters would have to cover
        let mut hdrs: Vec<Vec<u8>> = Vec::new();
        for (id, unk) in chain.iter().rev() {
            let mut h = enc::id_bytes(*id);
            if *unk {
                h.extend_from_slice(&enc::unknown_size(if rng.chance(1, 2) { 8 } else { rng.range(1, 8) }));
            } else {
                let sz = match rng.below(5) {
                    0 => rng.below(1 << 40),
                    // a small, innocent-looking parent that the hostile child overruns (with
                    // OversizedTags tolerated only the size limit stands between it and the allocation)
                    1 | 2 => (target_hdr_len as u64 + rng.below(64)).min(m.max(target_hdr_len as u64)),
                    _ => inner_total,
                }
                .min((1u64 << 56) - 2);
                let mw = rng.range(enc::min_size_width(sz), 8);
                h.extend_from_slice(&enc::size_vint(sz, mw));
                inner_total = sz;
            }
            inner_total = inner_total.saturating_add(h.len() as u64);
            hdrs.push(h);
        }
        for h in hdrs.iter().rev() {
            bytes.extend_from_slice(h);
        }
        let target_off = bytes.len();
        bytes.extend_from_slice(&enc::id_bytes(tid));
        bytes.extend_from_slice(&enc::size_vint(declared, w));
        if declared <= m {
            legit = declared;
        }
        // payload: present (really), short, or absent; the rest exists virtually
        let present: u64 = match rng.below(4) {
            0 => 0,
            1 => declared.min(rng.below(64)),
            2 => declared.min(8 << 20).min(rng.below(4096)),
            _ => declared.min(300),
        };
        bytes.extend(std::iter::repeat(0x41).take(present as usize));
        let virtual_tail = match rng.below(3) {
            0 => 0,
            1 => declared.saturating_sub(present).min(1u64 << 58),
            _ => rng.below(1 << 24),
        };
        let mut cfg = IterCfg { max_size, ..Default::default() };
        cfg.allow = cases::gen_allow(&mut rng, 40);
        cfg.capacity = io::gen_capacity(&mut rng, bytes.len());
        crate::harness::gen_cfg_history(&mut rng, &mut cfg);
        let mut script = io::gen_rscript(&mut rng, bytes.len(), &[]);
        // after the scripted chunks the source fills whatever buffer it is offered, so that a
        // legitimate multi-megabyte payload does not take millions of calls
        script.rest = 0;
        // one case in ten sets the limit late: a junk byte in front makes the first call fail, the caller recovers,
        // only then sets the limit, and goes on. The limit must hold for the very next tag.
        if rng.chance(1, 10) && !matches!(cfg.max_size, MaxSz::Default) {
            let firsts: Vec<u8> = spec.elems.iter().map(|e| enc::id_bytes(e.id)[0]).collect();
            let alphabet: Vec<u8> = (0u8..=255).filter(|b| !firsts.contains(b)).collect();
            if !alphabet.is_empty() {
                let junk: Vec<u8> = (0..rng.range(1, 3)).map(|_| *rng.pick(&alphabet)).collect();
                let mut b2 = junk.clone();
                b2.extend_from_slice(&bytes);
                let mut cfg2 = cfg.clone();
                // (the earlier limit is small too: whatever the recovery itself accepts under it stays cheap)
                cfg2.max_size = MaxSz::Limit(1 << 20);
                cfg2.decoy = None;
                cfg2.allow &= !crate::harness::ALLOW_IDS; // the junk must be an error, not a raw tag read under the old limit
                let rc = ReadCase { spec, input: Arc::new(b2), cfg: cfg2, script, driver: Driver::RecoverThenLimit(m as usize), class: "late-limit" };
                // (a recovery scan that does not stop at the element walks the rest of the stream: keep the virtual part short)
                return Case { rc, virtual_tail: virtual_tail.min(2000), target_off: target_off + junk.len(), target_id: tid, declared, legit, long_stream: false };
            }
        }
        let rc = ReadCase { spec, input: Arc::new(bytes), cfg, script, driver: Driver::UntilEnd { extra: 0 }, class: "hostile-size" };
        Case { rc, virtual_tail, target_off, target_id: tid, declared, legit, long_stream: false }
    }

    fn exec(&self, c: &Case, st: &mut Stats) -> Result<ExecOk, Fail> {
        if !c.rc.cfg.buffered.is_empty() {
            st.inc("out_of_scope");
            return Ok(ExecOk { nontrivial: false });
        }
        if let Driver::RecoverThenLimit(late) = &c.rc.driver {
            return exec_late_limit(c, *late as u64, st);
        }
        let Some(m) = limit_of(&c.rc.cfg) else {
            st.inc("out_of_scope");
            return Ok(ExecOk { nontrivial: false });
        };
        let n = c.rc.input.len();
        // the specification tables are installed before arming (interning leaks by design)
        crate::spec::install(&c.rc.spec);
        alloc::arm();
        let tr = run_reader(&c.rc.spec, &ReaderSetup { input: c.rc.input.clone(), virtual_tail: c.virtual_tail, cfg: &c.rc.cfg, script: &c.rc.script, driver: &c.rc.driver, max_steps: 4 * n + 256, keep_read_log: false });
        let usage = alloc::disarm();
        // the initial capacity is the configured one, or the library's default as the source saw it in the first read
        let cap = (c.rc.cfg.capacity.unwrap_or(65536).max(16) as u64).max(tr.rstats.first_buf_offered as u64);
        // what may legitimately be held: the largest in-limit element, the capacity, one header
        let legit = c.legit.min(m);
        // ... and the bookkeeping for the masters that are open at the same time, which no size limit can bound (a
        // stream may nest masters as deep as it is long): 512 bytes per level of the deepest nesting reached
        let mut depth = 0u64;
        let mut max_depth = 0u64;
        for e in &tr.evs {
            if let Ev::Tag(t, _) = e {
                if t.is_start() {
                    depth += 1;
                    max_depth = max_depth.max(depth);
                } else if t.is_end() {
                    depth = depth.saturating_sub(1);
                }
            }
        }
        st.max("max_nesting_depth_reached", max_depth);
        // The statement bounds memory by a small multiple of max(M, initial capacity), and by the declared size for an
        // in-limit element whose payload is missing. For limits up to 16 MiB the first bound is used as it stands; for
        // larger ones (the 4 GB default) it says nothing useful, and the second is used with a 16 MiB floor.
        let m_part = m.min(16 << 20);
        let allowed = 8 * legit.max(cap).max(m_part).max(16) + 4096 + 512 * max_depth;
        st.add("api_calls", tr.api_calls as u64);
        st.add("read_calls", tr.read_calls as u64);
        st.max("max_peak_heap_growth", usage.peak as u64);
        st.inc(match c.declared {
            d if d > m => "declared_above_limit",
            d if d == m => "declared_equals_limit",
            _ => "declared_within_limit",
        });
        let wbits = 64 - c.declared.leading_zeros();
        st.inc(match wbits {
            0..=7 => "declared_bits_0_7",
            8..=20 => "declared_bits_8_20",
            21..=32 => "declared_bits_21_32",
            33..=48 => "declared_bits_33_48",
            _ => "declared_bits_49_56",
        });
        if c.rc.cfg.max_size == MaxSz::Default {
            st.inc("default_limit_runs");
        }
        if c.virtual_tail > 0 {
            st.inc("lazy_tail_runs");
        }
        let ctx = || format!("limit {}, capacity {:?}, element {:x} at offset {} declaring {} bytes, {} real + {} virtual bytes follow its header\n trace: {}", m, c.rc.cfg.capacity, c.target_id, c.target_off, c.declared, n.saturating_sub(c.target_off), c.virtual_tail, tr.short(12));
        if let Some(p) = tr.panic() {
            fail!("panic", "a declared size caused a panic: {}; {}", p, ctx());
        }
        if tr.budget_exceeded || tr.step_cap_hit {
            fail!("no-termination", "{}", ctx());
        }
        if usage.peak as u64 > allowed {
            fail!("heap-growth", "peak heap growth {} bytes (largest single request {}) exceeds 8*max(min(limit,16 MiB) {}, largest in-limit element {}, capacity {}, 16)+4096+512*depth = {}; {}", usage.peak, usage.max_request, m_part, legit, cap, allowed, ctx());
        }
        // an element whose payload is missing costs at most its declared size: that goes for what the error carries too
        for e in &tr.evs {
            if let Ev::Err(ErrV::Eof { size: Some(sz), partial: Some(p), .. }) = e {
                if p.len() > *sz {
                    fail!("partial-data-exceeds-declared-size", "UnexpectedEOF carries {} bytes of partial data for a declared size of {}; {}", p.len(), sz, ctx());
                }
                st.inc("probe_eof_partial_data_within_declared_size");
            }
        }
        if c.long_stream {
            st.inc("long_stream_runs");
            st.add("long_stream_elements", tr.evs.iter().filter(|e| matches!(e, Ev::Tag(..))).count() as u64);
            if tr.first_error().is_some() {
                fail!("long-stream-error", "a stream of in-limit elements was not read through: {}", ctx());
            }
        }
        let pulled_bound = c.target_off as u64 + 16 + allowed;
        if !c.long_stream && tr.bytes_delivered > pulled_bound {
            fail!("bytes-pulled", "{} bytes were pulled from the source, more than offset+16+{} = {}; {}", tr.bytes_delivered, allowed, pulled_bound, ctx());
        }
        if c.declared > m {
            // never Ok: no item may be emitted for the element
            if let Some(ev) = tr.evs.iter().find(|e| matches!(e, Ev::Tag(t, o) if *o == c.target_off && !t.is_end() && t.id == c.target_id)) {
                fail!("oversized-element-accepted", "the element above the limit was emitted: {}; {}", ev.short(), ctx());
            }
            match tr.first_error() {
                Some(ErrV::InvalidTagSize { pos, size, .. }) if *pos == c.target_off => {
                    st.inc("probe_invalid_tag_size_reported");
                    if *size as u64 != c.declared {
                        // which size the error names is not fixed by the property: counted
                        st.inc("observed_invalid_tag_size_names_another_size");
                    }
                }
                Some(_) => st.inc("probe_rejected_by_earlier_check"),
                None => fail!("oversized-element-not-rejected", "the parse ended without any error; {}", ctx()),
            }
        } else if c.declared > 0 && tr.first_error().map(|e| matches!(e, ErrV::Eof { .. })).unwrap_or(false) {
            st.inc("probe_in_limit_payload_missing");
        }
        Ok(ExecOk { nontrivial: c.declared > 0 || c.long_stream })
    }

    fn fingerprint(&self, c: &Case) -> u64 {
        c.rc.fingerprint() ^ c.virtual_tail.rotate_left(17) ^ c.declared
    }

    fn to_j(&self, c: &Case) -> J {
        let mut j = c.rc.to_j();
        j["virtual_tail"] = json!(c.virtual_tail);
        j["target_off"] = json!(c.target_off);
        j["target_id"] = json!(format!("{:x}", c.target_id));
        j["declared"] = json!(c.declared);
        j["legit"] = json!(c.legit);
        j["long_stream"] = json!(c.long_stream);
        j
    }

    fn from_j(&self, j: &J) -> Result<Case, String> {
        Ok(Case {
            rc: ReadCase::from_j(j)?,
            virtual_tail: j.get("virtual_tail").and_then(|v| v.as_u64()).ok_or("virtual_tail")?,
            target_off: j.get("target_off").and_then(|v| v.as_u64()).ok_or("target_off")? as usize,
            target_id: u64::from_str_radix(j.get("target_id").and_then(|v| v.as_str()).ok_or("target_id")?, 16).map_err(|e| e.to_string())?,
            declared: j.get("declared").and_then(|v| v.as_u64()).ok_or("declared")?,
            legit: j.get("legit").and_then(|v| v.as_u64()).ok_or("legit")?,
            long_stream: j.get("long_stream").and_then(|v| v.as_bool()).unwrap_or(false),
        })
    }

    fn shrink(&self, c: &Case) -> Vec<Case> {
        // the bytes carry the premise (target offset, declared size): only schedule, capacity and
        // tolerance are simplified, and the virtual tail
        let mut v: Vec<Case> = c.rc.shrink(false).into_iter().filter(|rc| rc.spec == c.rc.spec).map(|rc| Case { rc, ..c.clone() }).collect();
        if c.virtual_tail > 0 {
            v.push(Case { virtual_tail: 0, ..c.clone() });
        }
        v
    }

    fn rule(&self) -> &'static str {
        "One case = specification + a reachable chain of 0-3 masters (known-size with accurate or hostile sizes, unknown-size, mixed) followed by one element (binary, string, numeric, master, or an id outside the specification) whose declared size is drawn from 0, M-1, M, M+1, 2M, powers of two up to 2^56-2, in any size-field width that holds it; payload really present, short or absent, the remainder existing only virtually in a lazy source; limit M from 0 to 1 MiB and the default 4e9; any tolerance subset; drawn capacity and delivery schedule; and, for 1 run in 60, a long stream of 50-600 in-limit Void elements of varying sizes (memory must be bounded by the largest of them, however many there are). One hostile-size case in ten sets the limit late (junk byte in front, first call fails, try_recover(), only then set_max_allowable_tag_size(M), next()): judged when the recovery stopped at a chain master in front of the element under test, to which the limit must then apply. Measured by a counting global allocator armed around the iteration. Checked: peak heap growth and bytes pulled <= 8*max(min(M, 16 MiB), largest in-limit declared size, capacity, 16)+4 KiB (+offset; + 512 bytes per level of the deepest nesting of open masters reached, which is bookkeeping no size limit bounds); an element above the limit is never emitted and the parse errors (InvalidTagSize at its offset unless an earlier check fires); no panic. Non-trivial: declared size > 0. Distinct: FNV-1a fingerprint."
    }
    fn assumptions(&self) -> Vec<&'static str> {
        vec![
            "heap growth is measured on the worker's thread only while a call into the library is running (iterator construction, whose buffer is the configured capacity, and the harness's own copies are outside); the factor 8 and the 4 KiB constant are slack for legitimate copies (old+new buffer, payload copy, error copy), hostile sizes exceed it by orders of magnitude",
            "a request above 1 GiB is refused by the allocator seam, which aborts the worker process; the parent reports the run as a violation (clause 'abort')",
            "with the default limit, in-limit declared sizes are kept below 8 MiB so that legitimate reads stay cheap",
        ]
    }
    fn expected_probes(&self) -> Vec<&'static str> {
        vec!["declared_above_limit", "declared_within_limit", "declared_bits_49_56", "declared_bits_33_48", "default_limit_runs", "lazy_tail_runs", "probe_invalid_tag_size_reported", "probe_rejected_by_earlier_check", "probe_in_limit_payload_missing", "long_stream_runs", "late_limit_runs", "probe_late_limit_judged", "probe_late_limit_enforced"]
    }
}
