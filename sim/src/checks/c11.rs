//! C11 — hierarchy validation equals declared path semantics, in reader and writer alike.
//!
//! No schedule or fault is relevant to this property (DESIGN.md says so); what the simulator
//! contributes is the generator of specifications and call histories/streams that build a chain
//! of open masters, and the operation-by-operation comparison with the reference matcher.

use std::sync::Arc;

use serde_json::{json, Value as J};

use crate::cases;
use crate::enc::{self, Node};
use crate::fail;
use crate::gen::{self, SpecOpts};
use crate::harness::{run_reader, run_writer, Driver, Ev, IterCfg, Opt, ReaderSetup, WOp};
use crate::io::{RScript, WScript};
use crate::refdec::ends_master;
use crate::rng::Rng;
use crate::runner::{Check, ExecOk, Fail, Fp, Stats, Tier};
use crate::spec::{ref_match, SpecTable, Ty};
use crate::val::{ErrV, TagV, Val, WErrV};

pub struct C11;

#[derive(Clone, Debug)]
pub struct Case {
    pub spec: SpecTable,
    /// open masters, outermost first: (id, written/encoded with unknown size)
    pub chain: Vec<(u64, bool)>,
    /// None = every element of the specification
    pub probe: Option<u64>,
    pub pseed: u64,
}

fn probe_tag(spec: &SpecTable, id: u64, rng: &mut Rng) -> (TagV, Opt) {
    let ty = spec.ty(id).unwrap();
    if ty == Ty::Master {
        match rng.below(4) {
            0 => (TagV::new(id, Val::Full(vec![])), Opt::Default),
            1 => (TagV::new(id, Val::Start), Opt::Unknown),
            2 => (TagV::new(id, Val::Start), Opt::Width(rng.range(1, 8) as u8)),
            _ => (TagV::new(id, Val::Start), Opt::Default),
        }
    } else {
        (TagV::new(id, gen::gen_leaf_val(rng, ty, &gen::PayOpts { max_len: 6, boundary_pct: 0 })), Opt::Default)
    }
}

fn chain_ops(chain: &[(u64, bool)]) -> Vec<WOp> {
    chain.iter().map(|(id, unk)| WOp::Write(TagV::new(*id, Val::Start), if *unk { Opt::Unknown } else { Opt::Default })).collect()
}

fn chain_str(chain: &[(u64, bool)]) -> String {
    chain.iter().map(|(id, u)| format!("{:x}{}", id, if *u { "(unknown-size)" } else { "" })).collect::<Vec<_>>().join(" / ")
}

impl Check for C11 {
    type Case = Case;
    fn id(&self) -> &'static str {
        "C11"
    }
    fn num(&self) -> u64 {
        11
    }
    fn level(&self) -> &'static str {
        "exploration"
    }
    fn runs(&self, tier: Tier) -> u64 {
        match tier {
            Tier::Quick => 600_000,
            Tier::Thorough => 18_000_000,
        }
    }

    fn gen(&self, seed: u64, spec_seed: u64, _tier: Tier) -> Case {
        let mut rng = Rng::new(seed);
        let spec = cases::spec_for(spec_seed, &SpecOpts { globals: true, intermediate_globals: true, global_masters: true, max_depth: 7, static_pct: 5, ..Default::default() });
        // a reachable chain: every master is allowed under the masters before it
        let mut chain: Vec<(u64, bool)> = Vec::new();
        let depth = rng.range(0, 7);
        let unk_pct = *rng.pick(&[0u64, 0, 30, 70]);
        for _ in 0..depth {
            let ids: Vec<u64> = chain.iter().map(|c| c.0).collect();
            // (not a master that by itself ends one of the trailing unknown-size masters it would be opened in:
            // possible through placeholders only, and then the chain would not be this chain for a reader)
            let rs = chain.iter().rposition(|x| !x.1).map(|i| i + 1).unwrap_or(0);
            let cands: Vec<_> = spec.elems.iter().filter(|e| e.ty == Ty::Master && spec.allowed(e.id, &ids) && !(rs..ids.len()).any(|i| ends_master(&spec, ids[i], e.id))).collect();
            if cands.is_empty() {
                break;
            }
            let e = *rng.pick(&cands);
            // (masters whose own path has a placeholder get unknown size half as often)
            let unk = rng.below(100) < unk_pct && (!e.has_global() || rng.chance(1, 2));
            chain.push((e.id, unk));
        }
        // one chain in 150 is very deep: a master that may contain itself (through a placeholder), opened 250-300
        // times on top of the chain built so far (counters and widths that hold "enough levels" show here)
        if rng.chance(1, 150) {
            let ids: Vec<u64> = chain.iter().map(|c| c.0).collect();
            let selfnest: Vec<u64> = spec.elems.iter().filter(|e| e.ty == Ty::Master && e.has_global() && {
                let mut c1 = ids.clone();
                let ok1 = spec.allowed(e.id, &c1);
                c1.push(e.id);
                let ok2 = spec.allowed(e.id, &c1);
                c1.push(e.id);
                c1.push(e.id);
                ok1 && ok2 && spec.allowed(e.id, &c1)
            }).map(|e| e.id).collect();
            if !selfnest.is_empty() {
                let g = *rng.pick(&selfnest);
                let k = *rng.pick(&[250usize, 254, 255, 256, 257, 300]);
                let mut c2 = ids.clone();
                for _ in 0..k {
                    if !spec.allowed(g, &c2) {
                        break;
                    }
                    c2.push(g);
                    chain.push((g, false));
                }
            }
        }
        Case { spec, chain, probe: None, pseed: rng.next() }
    }

    fn exec(&self, c: &Case, st: &mut Stats) -> Result<ExecOk, Fail> {
        let ids: Vec<u64> = c.chain.iter().map(|x| x.0).collect();
        // the chain itself must be reachable, otherwise nothing can be said
        for i in 0..ids.len() {
            let rs = c.chain[..i].iter().rposition(|x| !x.1).map(|k| k + 1).unwrap_or(0);
            if c.spec.ty(ids[i]) != Some(Ty::Master) || !c.spec.allowed(ids[i], &ids[..i]) || (rs..i).any(|k| ends_master(&c.spec, ids[k], ids[i])) {
                st.inc("out_of_scope");
                return Ok(ExecOk { nontrivial: false });
            }
        }
        st.inc("chains");
        st.max("max_chain_depth", ids.len() as u64);
        let mut pr = Rng::new(c.pseed);
        let probes: Vec<u64> = match c.probe {
            Some(p) => vec![p],
            None => c.spec.elems.iter().map(|e| e.id).collect(),
        };
        let open = chain_ops(&c.chain);
        // a call that must succeed under this chain, used to see that a rejection changed nothing
        let follow_up: Option<TagV> = c.spec.elems.iter().find(|e| e.ty != Ty::Master && c.spec.allowed(e.id, &ids)).map(|e| TagV::new(e.id, gen::gen_leaf_val(&mut Rng::new(1), e.ty, &gen::PayOpts { max_len: 4, boundary_pct: 0 })));
        for p in &probes {
            let Some(ed) = c.spec.get(*p) else {
                st.inc("out_of_scope");
                continue;
            };
            let want = ref_match(&ed.path, &ids);
            st.inc(if want { "probes_expected_accept" } else { "probes_expected_reject" });
            if ed.path.iter().any(|x| matches!(x, ebml_iterable::specs::PathPart::Global(_))) {
                st.inc("probe_placeholder_paths");
                let n = ed.path.len();
                if n >= 2 && ed.path[..n - 1].iter().any(|x| matches!(x, ebml_iterable::specs::PathPart::Global(_))) {
                    st.inc("probe_intermediate_placeholder_paths");
                }
                if ed.path.iter().filter(|x| matches!(x, ebml_iterable::specs::PathPart::Global(_))).count() >= 2 {
                    st.inc("probe_paths_with_several_placeholders");
                }
            }
            // ---------------- writer ----------------
            let (tag, opt) = probe_tag(&c.spec, *p, &mut pr);
            let mut ops = open.clone();
            ops.push(WOp::Write(tag.clone(), opt.clone()));
            if let Some(f) = &follow_up {
                ops.push(WOp::Write(f.clone(), Opt::Default));
            }
            let w = run_writer(&c.spec, &ops, &WScript::default(), false);
            st.add("writer_calls", ops.len() as u64);
            if let Some(pm) = &w.panic {
                fail!("writer-panic", "{}", pm);
            }
            if w.results.len() < open.len() + 1 || w.results[..open.len()].iter().any(|r| r.is_err()) {
                // the chain could not be opened through the API although every step is allowed
                let k = w.results.iter().position(|r| r.is_err()).unwrap_or(0);
                fail!("writer-rejects-allowed-master", "opening the chain {} failed at master {:x}: {:?}, although its declared path {:?} matches the masters open before it", chain_str(&c.chain), ids[k], w.results[k], c.spec.path(ids[k]));
            }
            let r = &w.results[open.len()];
            match (want, r) {
                (true, Ok(())) => {}
                (false, Err(WErrV::UnexpectedTag { id, .. })) if *id == *p => {
                    // chain unchanged: a tag allowed here is still accepted
                    if follow_up.is_some() {
                        if let Some(Err(e)) = w.results.get(open.len() + 1) {
                            fail!("writer-state-changed-by-rejection", "after rejecting {:x} under {} the writer also rejects {:x}, which is allowed there: {:?}", p, chain_str(&c.chain), follow_up.as_ref().unwrap().id, e);
                        }
                    }
                }
                (true, Err(e)) => fail!("writer-rejects-allowed-tag", "write({}{}) under the open chain {} failed with {:?}; declared path {:?} matches that chain", tag.short(), if opt == Opt::Unknown { " unknown-size" } else { "" }, chain_str(&c.chain), e, ed.path),
                (false, Ok(())) => fail!("writer-accepts-forbidden-tag", "write({}{}) under the open chain {} was accepted; declared path {:?} does not match that chain", tag.short(), if opt == Opt::Unknown { " unknown-size" } else { "" }, chain_str(&c.chain), ed.path),
                (false, Err(e)) => fail!("writer-wrong-rejection", "write({}) under {} failed with {:?} instead of UnexpectedTag carrying its id", tag.short(), chain_str(&c.chain), e),
            }
            // ---------------- reader ----------------
            let first_has_global = ids.first().map(|f| c.spec.get(*f).unwrap().has_global()).unwrap_or(ed.has_global());
            if ids.is_empty() {
                // the probe would be the first element of the stream, which the reader trusts (it fixes
                // the position in the document, C06): nothing to judge
                st.inc("reader_skipped_probe_is_first_element");
                continue;
            }
            if first_has_global {
                st.inc("reader_skipped_position_not_fixed_by_first_element");
                continue;
            }
            // an element with exactly the (placeholder-bearing) declared path of an open unknown-size master of
            // the trailing run: "sibling, closes it" and "global elements never close it" both apply. Not judged.
            let run_start = c.chain.iter().rposition(|x| !x.1).map(|i| i + 1).unwrap_or(0);
            if ed.has_global() && (run_start..ids.len()).any(|i| c.spec.path(ids[i]) == ed.path) {
                st.inc("reader_skipped_same_global_path_as_open_unknown_master");
                continue;
            }
            // More generally, whenever an unknown-size master of the trailing run has a placeholder in its own declared
            // path, "sibling" and "ancestor" stop being one thing: an element that shares its enclosing masters but not
            // its declared path may or may not be taken for a sibling (path equality versus "same parent"), and a
            // placeholder-pathed ancestor id is both "a new instance of an ancestor" and "a global element, which never
            // closes it". A reader may read the closing rule either way, so the reader is not judged on such chains
            // (the writer is: it has no closing rule). Found by an independent review of this check (reviews/R3.md).
            if (run_start..ids.len()).any(|i| c.spec.get(ids[i]).map_or(false, |d| d.has_global())) {
                st.inc("reader_skipped_placeholder_pathed_unknown_master_in_trailing_run");
                continue;
            }
            // stream: chain[0] > chain[1] > ... > probe (a leaf with a small payload, or an empty master)
            let leaf = if ed.ty == Ty::Master { Node::master(*p, vec![]) } else { Node::leaf(*p, gen::gen_leaf_val(&mut pr, ed.ty, &gen::PayOpts { max_len: 6, boundary_pct: 0 })) };
            // sometimes a completed sibling subtree precedes the probe inside the innermost chain master: a
            // known-size master that ends by byte count, optionally with an unknown-size master (and a leaf)
            // still open inside it at that moment. It must leave the chain exactly as it was.
            let mut filler: Option<Node> = None;
            if pr.chance(1, 3) {
                // (a filler that would itself end a master of the trailing unknown-size run would change the chain)
                let ms: Vec<_> = c.spec.elems.iter().filter(|e| e.ty == Ty::Master && c.spec.allowed(e.id, &ids) && !(run_start..ids.len()).any(|i| ends_master(&c.spec, ids[i], e.id))).collect();
                if !ms.is_empty() {
                    let m = *pr.pick(&ms);
                    let mut inner_chain = ids.clone();
                    inner_chain.push(m.id);
                    let mut kids: Vec<Node> = Vec::new();
                    let m2s: Vec<_> = c.spec.elems.iter().filter(|e| e.ty == Ty::Master && !e.has_global() && c.spec.allowed(e.id, &inner_chain)).collect();
                    if !m2s.is_empty() && pr.chance(2, 3) {
                        let m2 = *pr.pick(&m2s);
                        let mut c2 = inner_chain.clone();
                        c2.push(m2.id);
                        let mut n2 = Node::master(m2.id, vec![]);
                        n2.enc.unknown = true;
                        if let Some(l) = c.spec.elems.iter().find(|e| e.ty != Ty::Master && c.spec.allowed(e.id, &c2)) {
                            n2.body = crate::enc::Body::Master(vec![Node::leaf(l.id, gen::gen_leaf_val(&mut pr, l.ty, &gen::PayOpts { max_len: 4, boundary_pct: 0 }))]);
                        }
                        kids.push(n2);
                        st.inc("probe_reader_stream_with_unknown_master_closed_by_exhaustion");
                    }
                    filler = Some(Node::master(m.id, kids));
                    st.inc("probe_reader_stream_with_completed_sibling");
                }
            }
            // sometimes the innermost chain master (when known-size) is padded with a Void element so that its content is
            // exactly 127 bytes: a size of 2^(7k)-1 has to be written in a wider field, and must still be read as a size
            let mut pad: Option<Node> = None;
            if filler.is_none() && pr.chance(1, 6) && c.chain.last().map_or(false, |x| !x.1) && c.spec.allowed(crate::spec::VOID_ID, &ids) {
                let probe_len = enc::encode(std::slice::from_ref(&leaf)).bytes.len();
                if probe_len + 2 <= 127 {
                    pad = Some(Node::leaf(crate::spec::VOID_ID, crate::val::Val::B(vec![0u8; 127 - probe_len - 2])));
                    st.inc("probe_reader_stream_with_boundary_length_master");
                }
            }
            let mut node = leaf;
            let mut first = true;
            for (id, unk) in c.chain.iter().rev() {
                let mut kids = Vec::new();
                if first {
                    if let Some(f) = filler.take() {
                        kids.push(f);
                    }
                    if let Some(f) = pad.take() {
                        kids.push(f);
                    }
                    first = false;
                }
                kids.push(node);
                let mut m = Node::master(*id, kids);
                m.enc.unknown = *unk;
                node = m;
            }
            let e = enc::encode(std::slice::from_ref(&node));
            // the chain that remains after the closing rule: the outermost master of the trailing
            // unknown-size run that the probe ends goes, with everything inside it
            let remaining: Vec<u64> = match (run_start..ids.len()).find(|i| ends_master(&c.spec, ids[*i], *p)) {
                Some(i) => {
                    st.inc("probe_closes_unknown_size_masters");
                    ids[..i].to_vec()
                }
                None => ids.clone(),
            };
            let want_r = ref_match(&ed.path, &remaining);
            let input = Arc::new(e.bytes);
            let n = input.len();
            let tr = run_reader(&c.spec, &ReaderSetup { input: input.clone(), virtual_tail: 0, cfg: &IterCfg::default(), script: &RScript::whole(), driver: &Driver::UntilEnd { extra: 0 }, max_steps: 4 * n + 64, keep_read_log: false });
            st.add("api_calls", tr.api_calls as u64);
            if let Some(pm) = tr.panic() {
                fail!("reader-panic", "{}", pm);
            }
            let ctx = || format!("stream {} = chain {} then element {:x} (declared path {:?}); chain after the closing rule: {:x?}\n trace: {}", crate::val::hex(&input), chain_str(&c.chain), p, ed.path, remaining, tr.short(40));
            match (want_r, tr.first_error()) {
                (true, None) => {
                    if !tr.tags().iter().any(|(t, _)| t.id == *p && !t.is_end()) || !matches!(tr.evs.last(), Some(Ev::None)) {
                        fail!("reader-lost-element", "the element was not emitted; {}", ctx());
                    }
                    // accepted for the right reason: the masters closed on the way are exactly those the
                    // closing rule names (the chain the element was judged against is what remained open)
                    let (want_tags, stop) = crate::refdec::ref_decode(&c.spec, &input);
                    if stop == crate::refdec::DecStop::Clean {
                        let got: Vec<crate::val::TagV> = tr.tags().into_iter().map(|(t, _)| t).collect();
                        if got != want_tags {
                            let k = got.iter().zip(want_tags.iter()).take_while(|(a, b)| a == b).count();
                            fail!("reader-closes-other-masters", "item {} is {} where the closing rule gives {}; {}", k, got.get(k).map(|t| t.short()).unwrap_or("<end>".into()), want_tags.get(k).map(|t| t.short()).unwrap_or("<end>".into()), ctx());
                        }
                        st.inc("probe_reader_trace_compared");
                    }
                }
                (true, Some(e)) => fail!("reader-rejects-allowed-element", "strict read fails with {}; {}", e.short(), ctx()),
                (false, Some(ErrV::Hierarchy { found, .. })) if *found == *p => {}
                (false, Some(e)) => fail!("reader-wrong-rejection", "expected the hierarchy error carrying {:x}, got {}; {}", p, e.short(), ctx()),
                (false, None) => fail!("reader-accepts-forbidden-element", "strict read reports no error; {}", ctx()),
            }
            st.inc("reader_probes");
        }
        Ok(ExecOk { nontrivial: !c.chain.is_empty() })
    }

    fn fingerprint(&self, c: &Case) -> u64 {
        let mut f = Fp::default();
        for (id, u) in &c.chain {
            f.u(*id).u(*u as u64);
        }
        f.u(c.probe.unwrap_or(0)).u(c.pseed);
        for e in &c.spec.elems {
            f.u(e.id).u(e.ty as u64).s(&format!("{:?}", e.path));
        }
        f.0
    }

    fn to_j(&self, c: &Case) -> J {
        json!({"spec": c.spec.to_j(), "chain": c.chain.iter().map(|(id, u)| json!({"id": format!("{:x}", id), "unknown": u})).collect::<Vec<_>>(), "probe": c.probe.map(|p| format!("{:x}", p)), "pseed": c.pseed})
    }

    fn from_j(&self, j: &J) -> Result<Case, String> {
        let mut chain = Vec::new();
        for x in j.get("chain").and_then(|v| v.as_array()).ok_or("chain")? {
            chain.push((u64::from_str_radix(x.get("id").and_then(|v| v.as_str()).ok_or("chain.id")?, 16).map_err(|e| e.to_string())?, x.get("unknown").and_then(|v| v.as_bool()).unwrap_or(false)));
        }
        Ok(Case {
            spec: SpecTable::from_j(j.get("spec").ok_or("spec")?)?,
            chain,
            probe: match j.get("probe").and_then(|v| v.as_str()) {
                Some(s) => Some(u64::from_str_radix(s, 16).map_err(|e| e.to_string())?),
                None => None,
            },
            pseed: j.get("pseed").and_then(|v| v.as_u64()).unwrap_or(0),
        })
    }

    fn shrink(&self, c: &Case) -> Vec<Case> {
        let mut v = Vec::new();
        if c.probe.is_none() {
            for e in &c.spec.elems {
                v.push(Case { probe: Some(e.id), ..c.clone() });
            }
            return v;
        }
        // shorter chains (prefixes stay reachable), fewer unknown-size flags, smaller specification
        for k in 0..c.chain.len() {
            v.push(Case { chain: c.chain[..k].to_vec(), ..c.clone() });
        }
        for i in 0..c.chain.len() {
            if c.chain[i].1 {
                let mut ch = c.chain.clone();
                ch[i].1 = false;
                v.push(Case { chain: ch, ..c.clone() });
            }
        }
        if c.spec.kind == crate::spec::SpecKind::Dyn {
            let mut used: Vec<u64> = c.chain.iter().map(|x| x.0).collect();
            used.push(c.probe.unwrap());
            for i in 0..c.spec.elems.len() {
                let e = &c.spec.elems[i];
                if used.contains(&e.id) || c.spec.elems.iter().any(|o| used.contains(&o.id) && o.path.iter().any(|p| matches!(p, ebml_iterable::specs::PathPart::Id(x) if *x == e.id))) {
                    continue;
                }
                let mut s = c.spec.clone();
                s.elems.remove(i);
                v.push(Case { spec: s, ..c.clone() });
            }
        }
        v
    }

    fn rule(&self) -> &'static str {
        "One case = specification (random forest of masters up to depth 7, leaves at any depth, global placeholders with arbitrary bounds in trailing AND intermediate position and several (non-adjacent) per path, global masters; or the derive-generated StaticSpec) + a reachable chain of open masters (depth 0-7, some unknown-size) for which EVERY element of the specification is probed: (writer) the chain is opened through the API and write(probe) must return Ok iff the reference NFA matches the declared path against the chain, else UnexpectedTag with the probe's id and an allowed tag must still be accepted afterwards; (reader) the stream chain…probe from the reference encoder — in a third of the probes with a completed known-size sibling subtree (possibly holding an unknown-size master closed by exhaustion) in front of the probe — is read strictly and must succeed iff the matcher accepts the probe under the chain remaining after the closing rule, else fail with the hierarchy error carrying the probe's id. Non-trivial: chain depth >= 1. Distinct: FNV-1a fingerprint of chain + specification."
    }
    fn assumptions(&self) -> Vec<&'static str> {
        vec![
            "no schedule or fault dimension is relevant to this property; the technique contributes the history/stream generator and the operation-by-operation refinement check against the reference matcher (spec.rs ref_match)",
            "reader probes need the first element of the stream to have a placeholder-free path (only then is the position in the document fixed, as C06 states); other chains are probed on the writer only",
            "for reader probes the trailing run of unknown-size masters holds only masters with placeholder-free declared paths (other chains are probed on the writer only)",
        ]
    }
    fn expected_probes(&self) -> Vec<&'static str> {
        vec!["probes_expected_accept", "probes_expected_reject", "probe_placeholder_paths", "probe_intermediate_placeholder_paths", "probe_paths_with_several_placeholders", "probe_closes_unknown_size_masters", "reader_probes", "probe_reader_stream_with_completed_sibling", "probe_reader_stream_with_unknown_master_closed_by_exhaustion"]
    }
}
