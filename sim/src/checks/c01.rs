//! C01 — write → read round trip reproduces every accepted tag sequence exactly.

use std::sync::Arc;

use serde_json::{json, Value as J};

use crate::cases;
use crate::fail;
use crate::gen::{self, SpecOpts};
use crate::harness::{run_reader, run_writer, Driver, Ev, IterCfg, MaxSz, ReaderSetup, WOp, ALLOW_IDS};
use crate::io::{self, RScript, WScript};
use crate::rng::Rng;
use crate::runner::{Check, ExecOk, Fail, Fp, Stats, Tier};
use crate::spec::SpecTable;
use crate::val::{TagV, Val};
use crate::wcases::{self, PresentOpts};

pub struct C01;

#[derive(Clone, Debug)]
pub struct Case {
    pub spec: SpecTable,
    pub ops: Vec<WOp>,
    pub wscript: WScript,
    pub capacity: Option<usize>,
    pub rscript: RScript,
}

fn has_raw(tags: &[TagV]) -> bool {
    tags.iter().any(|t| matches!(t.val, Val::Raw(_)))
}

impl Check for C01 {
    type Case = Case;
    fn id(&self) -> &'static str {
        "C01"
    }
    fn num(&self) -> u64 {
        1
    }
    fn level(&self) -> &'static str {
        "exploration"
    }
    fn runs(&self, tier: Tier) -> u64 {
        match tier {
            Tier::Quick => 1_500_000,
            Tier::Thorough => 45_000_000,
        }
    }

    fn gen(&self, seed: u64, spec_seed: u64, tier: Tier) -> Case {
        let mut rng = Rng::new(seed);
        let spec = cases::spec_for(spec_seed, &SpecOpts { shapes: true, ..Default::default() });
        let mut o = cases::doc_opts_for(tier, &mut rng);
        o.noncanonical_pct = 0;
        o.raw_pct = *rng.pick(&[0u64, 0, 8, 20]);
        if rng.chance(1, 40) {
            // payloads around the default buffer length (64 KiB) and the powers of two above it
            o.pay.max_len = *rng.pick(&[65537usize, 65537, 131073, 262144]);
            o.pay.boundary_pct = 60;
            o.max_nodes = 8;
        }
        if tier == Tier::Thorough && rng.chance(1, 400) {
            o.pay.max_len = 2_097_153;
            o.pay.boundary_pct = 40;
            o.max_nodes = 6;
        }
        // steer master bodies to boundary sizes now and then: a Void child padded so that the
        // parent's content length lands on 126..128 / 16382..16384
        let mut doc = gen::gen_doc(&mut rng, &spec, &o);
        if rng.chance(1, 6) {
            gen::pad_to_boundary(&mut rng, &spec, &mut doc);
        }
        let mut ops = Vec::new();
        let po = PresentOpts { full_pct: *rng.pick(&[0u64, 25, 60]), ..Default::default() };
        wcases::present(&mut rng, &doc, &po, &mut ops);
        let wscript = io::gen_wscript(&mut rng);
        let enc_len = crate::enc::encode(&doc).bytes.len();
        let capacity = io::gen_capacity(&mut rng, enc_len);
        let rscript = io::gen_rscript(&mut rng, enc_len, &[]);
        Case { spec, ops, wscript, capacity, rscript }
    }

    fn exec(&self, c: &Case, st: &mut Stats) -> Result<ExecOk, Fail> {
        let wt = run_writer(&c.spec, &c.ops, &c.wscript, true);
        st.add("writer_calls", c.ops.len() as u64 + 1);
        st.add("sink_write_calls", wt.write_calls as u64);
        st.add("fault_partial_writes", wt.partial_writes as u64);
        if let Some(p) = &wt.panic {
            fail!("writer-panic", "the writer panicked: {}", p);
        }
        if !wt.all_ok() {
            // the property is about sequences the writer accepts
            st.inc("writer_rejected");
            if std::env::var("VERIF_TRACE_REJECT").is_ok() {
                let i = wt.results.iter().position(|r| r.is_err());
                eprintln!("C01 writer rejected: op {:?} of {} -> {:?} / into_inner {:?}\n ops: {}", i, c.ops.len(), i.map(|i| (c.ops[i].short(), wt.results[i].clone())), wt.into_inner, c.ops.iter().map(|o| o.short()).collect::<Vec<_>>().join(" "));
            }
            return Ok(ExecOk { nontrivial: false });
        }
        if wcases::ambiguous_history(&c.spec, &c.ops) {
            // excluded by the property itself (matters for shrunk cases)
            st.inc("out_of_scope_ambiguous");
            return Ok(ExecOk { nontrivial: false });
        }
        // into_inner() closes whatever is still open (only shrunk histories leave masters open)
        let expected = wcases::expected_with_eof_ends(&c.ops);
        for t in &expected {
            match &t.val {
                Val::S(s) => st.max("max_payload_len", s.len() as u64),
                Val::B(b) | Val::Raw(b) => {
                    st.max("max_payload_len", b.len() as u64);
                    if [127usize, 16383, 2097151].contains(&b.len()) {
                        st.inc("probe_payload_len_2p7k_minus_1");
                    }
                }
                Val::I(_) => st.inc("probe_signed_elements"),
                Val::F(_) => st.inc("probe_float_elements"),
                _ => {}
            }
        }
        if c.ops.iter().any(|o| matches!(o, WOp::Write(t, _) if t.is_full())) {
            st.inc("probe_full_presentations");
        }
        if c.ops.iter().any(|o| matches!(o, WOp::Write(_, crate::harness::Opt::Unknown) | WOp::WriteUnknownDeprecated(_))) {
            st.inc("probe_unknown_size_masters");
        }
        if c.ops.iter().any(|o| matches!(o, WOp::Write(_, crate::harness::Opt::Width(_)))) {
            st.inc("probe_explicit_widths");
        }
        let raw = has_raw(&expected);
        if raw {
            st.inc("probe_raw_tags");
        }
        let input = Arc::new(wt.out.clone());
        let n = input.len();
        let mut cfg = IterCfg { allow: if raw { ALLOW_IDS } else { 0 }, max_size: MaxSz::Default, ..Default::default() };
        let run = |cfg: &IterCfg, script: &RScript| run_reader(&c.spec, &ReaderSetup { input: input.clone(), virtual_tail: 0, cfg, script, driver: &Driver::UntilEnd { extra: 0 }, max_steps: 4 * n + 64, keep_read_log: false });
        // (a) the property in its narrowest reading: whole read, default capacity
        let tr = run(&cfg, &RScript::whole());
        st.add("api_calls", tr.api_calls as u64);
        let verdict = |tr: &crate::harness::RTrace| -> Result<(), Fail> {
            if let Some(p) = tr.panic() {
                fail!("reader-panic", "reading the writer's output panicked: {}", p);
            }
            let got: Vec<TagV> = tr.tags().into_iter().map(|(t, _)| t).collect();
            let k = got.iter().zip(expected.iter()).take_while(|(a, b)| a == b).count();
            if let Some(e) = tr.first_error() {
                fail!("read-error", "after {} of {} tags the strict reader reports {}\n written: {}\n bytes: {}\n trace: {}", k, expected.len(), e.short(), c.ops.iter().map(|o| o.short()).collect::<Vec<_>>().join(" "), if n <= 80 { crate::val::hex(&input) } else { format!("[{} bytes]", n) }, tr.short(40));
            }
            if got != expected {
                fail!("tags-differ", "tag {}: wrote {} but read {}\n written: {}\n trace: {}", k, expected.get(k).map(|t| t.short()).unwrap_or("<nothing>".into()), got.get(k).map(|t| t.short()).unwrap_or("<nothing>".into()), c.ops.iter().map(|o| o.short()).collect::<Vec<_>>().join(" "), tr.short(40));
            }
            if !matches!(tr.evs.last(), Some(Ev::None)) {
                fail!("no-clean-end", "the read did not end with None");
            }
            Ok(())
        };
        verdict(&tr)?;
        // (b) the same through a drawn schedule and capacity; a failure only here belongs to C04
        cfg.capacity = c.capacity;
        let tr2 = run(&cfg, &c.rscript);
        st.add("api_calls", tr2.api_calls as u64);
        st.add("fault_short_reads", tr2.rstats.short_reads);
        if verdict(&tr2).is_err() {
            st.inc("schedule_only_failures_left_to_C04");
        }
        Ok(ExecOk { nontrivial: expected.len() >= 3 })
    }

    fn fingerprint(&self, c: &Case) -> u64 {
        let mut f = Fp::default();
        wcases::fp_ops(&mut f, &c.ops);
        for e in &c.spec.elems {
            f.u(e.id).u(e.ty as u64);
        }
        f.0
    }

    fn to_j(&self, c: &Case) -> J {
        json!({"spec": c.spec.to_j(), "ops": wcases::ops_to_j(&c.ops), "wscript": c.wscript.to_j(), "capacity": c.capacity, "rscript": c.rscript.to_j()})
    }

    fn from_j(&self, j: &J) -> Result<Case, String> {
        Ok(Case {
            spec: SpecTable::from_j(j.get("spec").ok_or("spec")?)?,
            ops: wcases::ops_from_j(j.get("ops").ok_or("ops")?)?,
            wscript: WScript::from_j(j.get("wscript").ok_or("wscript")?)?,
            capacity: j.get("capacity").and_then(|c| c.as_u64()).map(|c| c as usize),
            rscript: RScript::from_j(j.get("rscript").ok_or("rscript")?)?,
        })
    }

    fn shrink(&self, c: &Case) -> Vec<Case> {
        let mut v = Vec::new();
        if c.wscript != WScript::default() {
            v.push(Case { wscript: WScript::default(), ..c.clone() });
        }
        if !c.rscript.is_whole() || c.capacity.is_some() {
            v.push(Case { rscript: RScript::whole(), capacity: None, ..c.clone() });
        }
        for ops in wcases::shrink_ops(&c.ops) {
            v.push(Case { ops, ..c.clone() });
        }
        v
    }

    fn rule(&self) -> &'static str {
        "One case = specification + tag tree presented to the real writer as Start/End, Full, unknown-size (option or deprecated call), explicit size widths 1-8, raw tags, payload classes biased to lengths 0, 1, 126-129, 16382-16385, 65535-65537 (thorough: 2^21-1..2^21+1) and integer/float boundary values, through a short-writing sink; if the writer accepts everything, the strict iterator must read back exactly the flattened tags and end cleanly (whole read; a second read under a drawn schedule attributes schedule-only failures to C04). Non-trivial: at least 3 tags were written and accepted. Distinct: FNV-1a fingerprint of the call history + specification."
    }
    fn assumptions(&self) -> Vec<&'static str> {
        vec![
            "conditional on writer acceptance: a rejected call ends the case for C01 (C11/C19 judge rejections)",
            "excluded by construction, as the property does: an element whose declared path has a placeholder, or a raw element, directly after the end of an unknown-size master; unknown size only on masters whose declared path has no placeholder",
        ]
    }
    fn expected_probes(&self) -> Vec<&'static str> {
        vec!["probe_payload_len_2p7k_minus_1", "probe_signed_elements", "probe_float_elements", "probe_full_presentations", "probe_unknown_size_masters", "probe_explicit_widths", "probe_raw_tags", "fault_partial_writes"]
    }
}

