//! C05 — totality of the iterator: no panic, no hang, bounded output, fused, I/O errors carried.

use std::sync::Arc;

use serde_json::Value as J;

use crate::cases::{self, InputOpts, ReadCase};
use crate::fail;
use crate::gen::{FaultStats, SpecOpts};
use crate::harness::{run_reader, Driver, DrvOp, Ev, IterCfg, MaxSz, ReaderSetup};
use crate::io::{self, Fault, ROut, RScript};
use crate::rng::Rng;
use crate::runner::{Check, ExecOk, Fail, Stats, Tier};
use crate::val::ErrV;

pub struct C05;

fn driver_steps(rc: &ReadCase) -> usize {
    match &rc.driver {
        Driver::Script(ops) => ops.len() + 1,
        _ => 6 * rc.input.len() + 96,
    }
}

impl Check for C05 {
    type Case = ReadCase;
    fn id(&self) -> &'static str {
        "C05"
    }
    fn num(&self) -> u64 {
        5
    }
    fn level(&self) -> &'static str {
        "exploration"
    }
    fn runs(&self, tier: Tier) -> u64 {
        match tier {
            Tier::Quick => 4_000_000,
            Tier::Thorough => 120_000_000,
        }
    }

    fn gen(&self, seed: u64, spec_seed: u64, tier: Tier) -> ReadCase {
        let mut rng = Rng::new(seed);
        let so = SpecOpts { static_pct: 25, global_masters: true, intermediate_globals: true, ..Default::default() };
        let spec = cases::spec_for(spec_seed, &so);
        let mut fs = FaultStats::default();
        let mut doc = cases::doc_opts_for(tier, &mut rng);
        doc.pay.max_len = doc.pay.max_len.min(if rng.chance(1, 20) { 70_000 } else { 200 });
        let io = InputOpts { doc, faulted_pct: 40, truncated_pct: 5, random_pct: 20, soup_pct: 20, max_faults: 4, mid_document_pct: 5 };
        let mut gi = cases::gen_input(&mut rng, &spec, &io, &mut fs);
        let mut deep_master: Option<u64> = None;
        if rng.chance(1, 400) {
            // deep nesting: a master inside up to 400 further instances of itself (recursion depth of
            // path matching, of the open-master scans and of the Full roll-up)
            let depth = *rng.pick(&[20usize, 60, 150, 400]);
            if let Some((doc, g)) = crate::gen::gen_deep_doc(&mut rng, &spec, depth) {
                gi.bytes = crate::enc::encode(&doc).bytes;
                gi.class = "deep-nesting";
                deep_master = Some(g);
                if rng.chance(1, 3) {
                    crate::gen::byte_faults(&mut rng, &mut gi.bytes, 2, &mut fs);
                }
            }
        }
        let mut cfg = IterCfg::default();
        cfg.allow = cases::gen_allow(&mut rng, 30);
        cfg.buffered = cases::gen_buffered(&mut rng, &spec, 25);
        if let Some(g) = deep_master {
            if rng.chance(1, 2) {
                cfg.buffered = vec![g];
            }
        }
        cfg.max_size = MaxSz::Limit(*rng.pick(&[0usize, 1, 8, 64, 1000, 70_000, 1 << 20]));
        cfg.eof_end = !rng.chance(1, 4);
        cfg.capacity = io::gen_capacity(&mut rng, gi.bytes.len());
        crate::harness::gen_cfg_history(&mut rng, &mut cfg);
        let n = gi.bytes.len();
        let mut script = io::gen_rscript(&mut rng, n, &[]);
        // source faults, biased to land early (inside header lookahead / payload refill / recovery scan)
        if rng.chance(1, 3) {
            for _ in 0..rng.range(1, 2) {
                let call = if rng.chance(2, 3) { rng.range(0, 6) } else { rng.range(0, 40) };
                let f = if rng.chance(1, 4) { Fault::Interrupted } else { Fault::Hard(rng.below(4) as u8) };
                script.faults.push((call, f));
            }
        }
        if !cfg.eof_end && rng.chance(1, 2) && n > 0 {
            for _ in 0..rng.range(1, 3) {
                script.pauses.push(rng.range(0, n));
            }
        }
        let driver = match rng.below(4) {
            0 => Driver::UntilEnd { extra: rng.range(1, 4) },
            1 => Driver::Recovering { max_errors: rng.range(1, 30), extra: rng.range(0, 3) },
            _ => {
                let len = rng.range(1, 3 * n.min(60) + 12);
                let p_recover = *rng.pick(&[2u64, 10, 30, 60]);
                // one history in three also reconfigures the iterator between calls (tolerated classes, size limit, EOF closing)
                let p_reconf = if rng.chance(1, 3) { *rng.pick(&[3u64, 10, 25]) } else { 0 };
                Driver::Script(
                    (0..len)
                        .map(|_| {
                            if rng.below(100) < p_reconf {
                                match rng.below(3) {
                                    0 => DrvOp::Allow(rng.below(8) as u8),
                                    1 => DrvOp::MaxSize(rng.below(8) as u8),
                                    _ => DrvOp::EofEnd(rng.chance(1, 2)),
                                }
                            } else if rng.below(100) < p_recover {
                                DrvOp::Recover
                            } else {
                                DrvOp::Next
                            }
                        })
                        .collect(),
                )
            }
        };
        let mut rc = ReadCase { spec, input: Arc::new(gi.bytes), cfg, script, driver, class: gi.class };
        // one run in ten combines what rarely meets by chance: masters that occur in the input requested as Full items,
        // closing off, a source that runs dry several times and resumes, and a caller that recovers from every error
        if rng.chance(1, 10) && n > 4 {
            let present: Vec<u64> = rc.spec.masters().into_iter().filter(|m| { let ib = crate::enc::id_bytes(*m); rc.input.windows(ib.len()).any(|w| w == &ib[..]) }).collect();
            if !present.is_empty() {
                rc.cfg.buffered = (0..rng.range(1, 2)).map(|_| *rng.pick(&present)).collect();
                rc.cfg.buffered.dedup();
                rc.cfg.eof_end = false;
                rc.script.pauses = (0..rng.range(3, 10)).map(|_| rng.range(1, n - 1)).collect();
                rc.driver = Driver::Recovering { max_errors: 40, extra: rng.range(0, 2) };
                rc.class = if rc.class == "valid" { "valid" } else { rc.class };
            }
        }
        rc
    }

    fn exec(&self, rc: &ReadCase, st: &mut Stats) -> Result<ExecOk, Fail> {
        let n = rc.input.len();
        let tr = run_reader(&rc.spec, &ReaderSetup { input: rc.input.clone(), virtual_tail: 0, cfg: &rc.cfg, script: &rc.script, driver: &rc.driver, max_steps: driver_steps(rc), keep_read_log: true });
        st.add("api_calls", tr.api_calls as u64);
        st.add("read_calls", tr.read_calls as u64);
        st.add("fault_hard_delivered", tr.rstats.hard);
        st.add("fault_interrupted_delivered", tr.rstats.interrupted);
        st.add("fault_pauses_delivered", tr.rstats.pauses);
        st.add("fault_short_reads", tr.rstats.short_reads);
        st.inc(match rc.class {
            "valid" => "input_valid",
            "byte-faulted" => "input_byte_faulted",
            "truncated" => "input_truncated",
            "random" => "input_random",
            "header-soup" => "input_header_soup",
            "deep-nesting" => "input_deep_nesting",
            _ => "input_replayed",
        });
        st.inc(if rc.spec.kind != crate::spec::SpecKind::Dyn { "spec_derive_generated" } else { "spec_dynamic" });
        // (1) no call unwinds
        if let Some(p) = tr.panic() {
            fail!("panic", "an API call panicked: {}\n trace: {}", p, tr.short(40));
        }
        // (2) progress
        if tr.budget_exceeded {
            fail!("livelock", "read-call budget exceeded ({} calls for {} input bytes)", tr.read_calls, n);
        }
        if tr.step_cap_hit && !matches!(rc.driver, Driver::Script(_)) {
            fail!("no-termination", "the parse did not end within {} API calls for {} input bytes\n trace: {}", tr.api_calls, n, tr.short(30));
        }
        // (3) bounded output
        let ok_items = tr.evs.iter().filter(|e| matches!(e, Ev::Tag(..))).count();
        let bound = 2 * n + rc.spec.max_depth() + 8;
        if ok_items > bound {
            fail!("item-bound", "{} successful items from {} input bytes (bound {})", ok_items, n, bound);
        }
        // (4) fused
        // (a history that switches EOF closing back on afterwards asks for the closing Ends: judged from that call on)
        let last_eof_on = match &rc.driver {
            Driver::Script(ops) => ops.iter().take(tr.evs.len()).rposition(|o| matches!(o, DrvOp::EofEnd(true))).map_or(0, |i| i + 1),
            _ => 0,
        };
        if tr.evs.iter().any(|e| matches!(e, Ev::Cfg)) {
            st.inc("probe_reconfigured_mid_stream");
        }
        if let Some(k) = (last_eof_on..tr.evs.len()).find(|k| matches!(tr.evs[*k], Ev::None) && tr.ended_at[*k]) {
            st.inc("probe_none_after_exhaustion");
            for (j, e) in tr.evs.iter().enumerate().skip(k + 1) {
                if matches!(e, Ev::Tag(..) | Ev::Err(_)) {
                    fail!("not-fused", "event {} is {} although next() had returned None at event {} with the source exhausted\n trace: {}", j, e.short(), k, tr.short(40));
                }
            }
        }
        // (5) hard source errors are carried, not swallowed
        for (r, log) in tr.reads.iter().enumerate() {
            let ROut::Hard(kind_idx, token) = &log.out else { continue };
            if *kind_idx == 255 {
                continue;
            }
            let want_kind = format!("{:?}", io::FAULT_KINDS[*kind_idx as usize % io::FAULT_KINDS.len()]);
            // event during which the failing read happened
            let Some(e0) = (0..tr.evs.len()).find(|e| tr.reads_at[*e] > r) else { continue };
            if matches!(tr.evs[e0], Ev::RecoverOk) || matches!(&tr.evs[e0], Ev::RecoverErr(x) if !matches!(x, ErrV::Read { token: t, .. } if t == token)) {
                // the error hit the recovery scan's header probe; the scan treats "cannot parse a
                // header here" uniformly and goes on, which retries the read. The property does not
                // fix whether the scan must abort (DESIGN C05), so this is not judged.
                st.inc("io_error_during_recovery_scan");
                continue;
            }
            let mut surfaced = false;
            for e in e0..tr.evs.len() {
                let before = if e == 0 { 0 } else { tr.reads_at[e - 1] };
                let is_recover = matches!(tr.evs[e], Ev::RecoverOk | Ev::RecoverErr(_));
                // the window closes when a next() call makes the iterator read again; reads caused by
                // the driver calling try_recover() while the error is still queued do not count
                let read_again = if e == e0 { tr.reads_at[e] > r + 1 } else { !is_recover && tr.reads_at[e] > before };
                if read_again {
                    fail!("io-error-swallowed", "source error #{} ({}) at read call {} was not reported before next() made the iterator read again (event {}: {})\n trace: {}", token, want_kind, r, e, tr.evs[e].short(), tr.short(40));
                }
                match &tr.evs[e] {
                    // (the error is recognised by the token in its payload, or - should an implementation wrap it and lose
                    // the payload text - by its kind)
                    Ev::Err(ErrV::Read { kind, token: t }) | Ev::RecoverErr(ErrV::Read { kind, token: t }) if t == token || (*t == 0 && *kind == want_kind) => {
                        if *kind != want_kind {
                            fail!("io-error-kind", "source error #{} had kind {} but was reported as {}", token, want_kind, kind);
                        }
                        surfaced = true;
                        st.inc("probe_io_error_surfaced");
                        if e > e0 {
                            st.inc("probe_io_error_after_queued_items");
                        }
                        break;
                    }
                    Ev::None => {
                        fail!("io-error-swallowed", "source error #{} ({}) at read call {}: next() returned None (event {}) instead of the read error\n trace: {}", token, want_kind, r, e, tr.short(40));
                    }
                    _ => {} // items and errors already determined may be delivered first
                }
            }
            if !surfaced {
                st.inc("io_error_inconclusive");
            }
        }
        // (6) try_recover fails only with end of input or a source error
        for e in &tr.evs {
            if let Ev::RecoverErr(x) = e {
                if !matches!(x, ErrV::Eof { .. } | ErrV::Read { .. }) {
                    fail!("recover-error-kind", "try_recover() failed with {}", x.short());
                }
            }
            if matches!(e, Ev::RecoverOk) {
                st.inc("probe_recover_ok");
            }
            if matches!(e, Ev::RecoverErr(_)) {
                st.inc("probe_recover_err");
            }
        }
        // a ReadError that is not ours must not appear at all
        let injected_kinds: Vec<String> = tr.reads.iter().filter_map(|l| if let ROut::Hard(k, _) = &l.out { if *k == 255 { None } else { Some(format!("{:?}", io::FAULT_KINDS[*k as usize % io::FAULT_KINDS.len()])) } } else { None }).collect();
        for e in &tr.evs {
            if let Ev::Err(ErrV::Read { token: 0, kind }) | Ev::RecoverErr(ErrV::Read { token: 0, kind }) = e {
                if kind != "Interrupted" && !injected_kinds.contains(kind) {
                    fail!("io-error-invented", "a ReadError of kind {} appeared that the source never produced", kind);
                }
            }
        }
        Ok(ExecOk { nontrivial: n > 0 && tr.api_calls > 1 })
    }

    fn fingerprint(&self, c: &ReadCase) -> u64 {
        c.fingerprint()
    }
    fn to_j(&self, c: &ReadCase) -> J {
        c.to_j()
    }
    fn from_j(&self, j: &J) -> Result<ReadCase, String> {
        ReadCase::from_j(j)
    }
    fn shrink(&self, c: &ReadCase) -> Vec<ReadCase> {
        c.shrink(true)
    }
    fn rule(&self) -> &'static str {
        "One case = specification (generated table or the easy_ebml!-generated StaticSpec) + arbitrary bytes (random / byte-faulted valid document / header soup / valid / truncated / a master nested in itself 20-400 deep) + configuration (tolerated classes, buffered ids, capacity 0.., size limit <= 1 MiB, EOF closing on/off) + delivery schedule with injected hard errors, Interrupted and pauses + a driver history of next()/try_recover() calls, one in nine also with allow_errors / set_max_allowable_tag_size / emit_master_end_when_eof calls in between. Non-trivial: non-empty input and more than one API call. Distinct: FNV-1a fingerprint of bytes + configuration + schedule + history."
    }
    fn assumptions(&self) -> Vec<&'static str> {
        vec![
            "specifications are internally consistent (the documented precondition for not panicking)",
            "the tag-size limit is kept <= 1 MiB so that tolerated hostile sizes do not turn the batch into an allocation benchmark (C17 covers memory)",
            "a hang inside a single call that performs no read is caught by the 30 s watchdog only",
            "whether a source error met during a try_recover() scan must abort the scan is not fixed by the property; only that it is not swallowed silently before another read",
        ]
    }
    fn expected_probes(&self) -> Vec<&'static str> {
        vec!["probe_io_error_surfaced", "probe_io_error_after_queued_items", "probe_recover_ok", "probe_recover_err", "probe_none_after_exhaustion", "probe_reconfigured_mid_stream", "spec_derive_generated", "input_deep_nesting"]
    }
}
