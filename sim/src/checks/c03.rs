//! C03 — every emitted tag mirrors the bytes at its reported offset; tags tile the stream.

use std::sync::Arc;

use serde_json::Value as J;

use crate::cases::{self, InputOpts, ReadCase};
use crate::fail;
use crate::gen::{FaultStats, SpecOpts};
use crate::harness::{run_reader, Driver, IterCfg, MaxSz, ReaderSetup};
use crate::io;
use crate::refdec::walk;
use crate::rng::Rng;
use crate::runner::{Check, ExecOk, Fail, Stats, Tier};
use crate::val::{TagV, Val};

pub struct C03;

/// Flattens emitted items; children of Full items carry no reported offset.
fn flatten_with_offsets(items: &[(TagV, usize)]) -> Vec<(TagV, Option<usize>)> {
    fn rec(t: &TagV, off: Option<usize>, out: &mut Vec<(TagV, Option<usize>)>) {
        match &t.val {
            Val::Full(cs) => {
                out.push((TagV::new(t.id, Val::Start), off));
                for c in cs {
                    rec(c, None, out);
                }
                out.push((TagV::new(t.id, Val::End), off));
            }
            _ => out.push((t.clone(), off)),
        }
    }
    let mut out = Vec::new();
    for (t, o) in items {
        rec(t, Some(*o), &mut out);
    }
    out
}

impl Check for C03 {
    type Case = ReadCase;
    fn id(&self) -> &'static str {
        "C03"
    }
    fn num(&self) -> u64 {
        3
    }
    fn level(&self) -> &'static str {
        "exploration"
    }
    fn runs(&self, tier: Tier) -> u64 {
        match tier {
            Tier::Quick => 2_500_000,
            Tier::Thorough => 75_000_000,
        }
    }

    fn gen(&self, seed: u64, spec_seed: u64, tier: Tier) -> ReadCase {
        let mut rng = Rng::new(seed);
        let spec = cases::spec_for(spec_seed, &SpecOpts::default());
        let mut fs = FaultStats::default();
        let mut doc = cases::doc_opts_for(tier, &mut rng);
        doc.raw_pct = *rng.pick(&[0u64, 0, 10]);
        let io = InputOpts { doc, faulted_pct: 30, truncated_pct: 10, random_pct: 5, soup_pct: 5, max_faults: 3, mid_document_pct: 8 };
        let gi = cases::gen_input(&mut rng, &spec, &io, &mut fs);
        let valid = gi.class == "valid";
        let mut cfg = IterCfg::default();
        cfg.allow = cases::gen_allow(&mut rng, 40);
        cfg.buffered = cases::gen_buffered(&mut rng, &spec, 35);
        cfg.max_size = if valid { MaxSz::Default } else { MaxSz::Limit(*rng.pick(&[64usize, 1000, 70_000, 1 << 20])) };
        cfg.capacity = io::gen_capacity(&mut rng, gi.bytes.len());
        crate::harness::gen_cfg_history(&mut rng, &mut cfg);
        cfg.eof_end = !rng.chance(1, 6);
        let mut script = io::gen_rscript(&mut rng, gi.bytes.len(), &[]);
        let input = Arc::new(gi.bytes);
        let mut driver = Driver::UntilEnd { extra: 0 };
        if !cfg.eof_end && rng.chance(2, 3) {
            // a source that reports a temporary end of file and delivers more afterwards: mostly at tag
            // boundaries (found by an unbuffered slice run), sometimes anywhere (the parse then ends in an
            // end-of-file error, and the items before it must still mirror the bytes)
            driver = Driver::Streaming { extra: 0 };
            let unb = IterCfg { buffered: vec![], eof_end: false, capacity: None, ..cfg.clone() };
            let bounds: Vec<usize> = crate::harness::slice_run(&spec, &input, &unb).ok_prefix().iter().filter(|(t, o)| !t.is_end() && *o > 0).map(|(_, o)| *o).collect();
            for _ in 0..rng.range(1, 4) {
                if !bounds.is_empty() && rng.chance(4, 5) {
                    script.pauses.push(*rng.pick(&bounds));
                } else if input.len() > 1 {
                    script.pauses.push(rng.range(1, input.len() - 1));
                }
            }
        }
        ReadCase { spec, input, cfg, script, driver, class: gi.class }
    }

    fn exec(&self, rc: &ReadCase, st: &mut Stats) -> Result<ExecOk, Fail> {
        if !rc.script.pauses.is_empty() && (rc.cfg.eof_end || !matches!(rc.driver, Driver::Streaming { .. })) {
            // temporary end-of-file reports go with closing off and a caller that polls on (matters for shrunk cases)
            st.inc("out_of_scope");
            return Ok(ExecOk { nontrivial: false });
        }
        let n = rc.input.len();
        let tr = run_reader(&rc.spec, &ReaderSetup { input: rc.input.clone(), virtual_tail: 0, cfg: &rc.cfg, script: &rc.script, driver: &rc.driver, max_steps: 4 * n + 64, keep_read_log: true });
        st.add("api_calls", tr.api_calls as u64);
        st.add("read_calls", tr.read_calls as u64);
        st.add("fault_short_reads", tr.rstats.short_reads);
        st.add("fault_pauses_delivered", tr.rstats.pauses);
        if tr.rstats.pauses > 0 && tr.evs.iter().filter(|e| matches!(e, crate::harness::Ev::None)).count() > 1 {
            st.inc("probe_items_after_temporary_eof");
        }
        if tr.panic().is_some() || tr.budget_exceeded || tr.step_cap_hit {
            st.inc("skipped_not_total");
            return Ok(ExecOk { nontrivial: false });
        }
        let cap = rc.cfg.capacity.unwrap_or(65536).max(16);
        if tr.reads.iter().any(|r| r.buf_len < cap && r.pos_before > 0 && r.buf_len > 0) {
            st.inc("probe_partial_refill");
        }
        if tr.rstats.max_buf_offered > cap {
            st.inc("probe_buffer_grew");
        }
        let items = tr.ok_prefix();
        st.add("items_checked", items.len() as u64);
        if items.iter().any(|(t, _)| t.is_full()) {
            st.inc("probe_full_items");
        }
        if items.iter().any(|(t, _)| matches!(t.val, Val::Raw(_))) {
            st.inc("probe_raw_items");
        }
        let flat = flatten_with_offsets(&items);
        let tags: Vec<TagV> = flat.iter().map(|(t, _)| t.clone()).collect();
        let (walked, _cur) = match walk(&rc.spec, &rc.input, &tags, 0) {
            Ok(w) => w,
            Err(e) => fail!("item-does-not-mirror-bytes", "flattened item {} ({}): {}\n trace: {}", e.item, tags[e.item].short(), e.what, tr.short(40)),
        };
        for (i, w) in walked.iter().enumerate() {
            let Some(rep) = flat[i].1 else { continue };
            if w.tag.is_end() {
                if rep != w.off {
                    fail!("end-offset", "End of {:x} reports offset {} but its master started at {}\n trace: {}", w.tag.id, rep, w.off, tr.short(40));
                }
            } else if rep != w.off {
                fail!("offset", "item {} reports offset {} but by tiling it starts at {} (where the bytes do hold its id)\n trace: {}", w.tag.short(), rep, w.off, tr.short(40));
            }
        }
        let non_end = walked.iter().filter(|w| !w.tag.is_end()).count();
        Ok(ExecOk { nontrivial: non_end >= 2 })
    }

    fn fingerprint(&self, c: &ReadCase) -> u64 {
        c.fingerprint()
    }
    fn to_j(&self, c: &ReadCase) -> J {
        c.to_j()
    }
    fn from_j(&self, j: &J) -> Result<ReadCase, String> {
        ReadCase::from_j(j)
    }
    fn shrink(&self, c: &ReadCase) -> Vec<ReadCase> {
        c.shrink(true)
    }
    fn rule(&self) -> &'static str {
        "One case = specification + bytes (valid incl. raw elements / byte-faulted / truncated / random / header soup) + tolerance subset + buffered-id subset + capacity + delivery schedule (with end-of-stream closing off, also temporary end-of-file reports at tag boundaries or anywhere, the caller polling on). The successful items up to the first error are flattened and replayed against the input by an independent decoder: id and header at the tiled position, value = documented decoding of the payload, reported offsets of non-End items = tiled position, End/Full offsets = master start (0 for implied ancestors). Non-trivial: at least two non-End items were checked. Distinct: FNV-1a fingerprint of bytes + configuration + schedule."
    }
    fn assumptions(&self) -> Vec<&'static str> {
        vec!["runs in which a call panics or does not terminate are skipped here (C05 reports them)", "children of Full items carry no offset of their own; they are checked for tiling and value only"]
    }
    fn expected_probes(&self) -> Vec<&'static str> {
        vec!["probe_partial_refill", "probe_buffer_grew", "probe_full_items", "probe_raw_items", "fault_pauses_delivered", "probe_items_after_temporary_eof"]
    }
}
