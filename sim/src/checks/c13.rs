//! C13 — each tolerance switch relaxes only its own check; relaxing never loses tags.

use std::sync::Arc;

use serde_json::{json, Value as J};

use crate::cases::{self, InputOpts, ReadCase};
use crate::enc::{self, Body, Node};
use crate::fail;
use crate::gen::{self, FaultStats, SpecOpts};
use crate::harness::{run_reader, Driver, IterCfg, MaxSz, RTrace, ReaderSetup, ALLOW_HIER, ALLOW_IDS, ALLOW_OVERSIZE};
use crate::io;
use crate::rng::Rng;
use crate::runner::{Check, ExecOk, Fail, Stats, Tier};
use crate::spec::{SpecTable, Ty};
use crate::val::{ErrV, TagV, Val};

pub struct C13;

#[derive(Clone, Debug, PartialEq, Eq)]
pub enum Class {
    /// id outside the specification
    I,
    /// element outside its allowed parents
    H,
    /// child overrunning a known-size ancestor
    O,
    /// declared size above the configured limit
    S,
}

impl Class {
    fn name(&self) -> &'static str {
        match self {
            Class::I => "I",
            Class::H => "H",
            Class::O => "O",
            Class::S => "S",
        }
    }
    fn kind(&self) -> &'static str {
        match self {
            Class::I => "InvalidTagId",
            Class::H => "HierarchyError",
            Class::O => "OversizedChildElement",
            Class::S => "InvalidTagSize",
        }
    }
    fn switch(&self) -> u8 {
        match self {
            Class::I => ALLOW_IDS,
            Class::H => ALLOW_HIER,
            Class::O => ALLOW_OVERSIZE,
            Class::S => 0,
        }
    }
}

#[derive(Clone, Debug)]
pub struct FaultInfo {
    pub class: Class,
    pub off: usize,
    pub id: u64,
    pub size: usize,
    pub parent: Option<u64>,
    pub before_mandatory: Vec<TagV>,
    pub before_optional: Vec<TagV>,
}

#[derive(Clone, Debug)]
pub struct Case {
    pub rc: ReadCase,
    pub fault: Option<FaultInfo>,
}

fn preorder_paths(doc: &[Node]) -> Vec<Vec<usize>> {
    fn rec(s: &[Node], p: &mut Vec<usize>, out: &mut Vec<Vec<usize>>) {
        for (i, n) in s.iter().enumerate() {
            p.push(i);
            out.push(p.clone());
            rec(n.children(), p, out);
            p.pop();
        }
    }
    let mut out = Vec::new();
    rec(doc, &mut Vec::new(), &mut out);
    out
}

fn node_ref<'a>(doc: &'a [Node], path: &[usize]) -> &'a Node {
    let n = &doc[path[0]];
    if path.len() == 1 {
        n
    } else {
        node_ref(n.children(), &path[1..])
    }
}

fn node_mut<'a>(doc: &'a mut [Node], path: &[usize]) -> &'a mut Node {
    let n = &mut doc[path[0]];
    if path.len() == 1 {
        n
    } else {
        match &mut n.body {
            Body::Master(cs) => node_mut(cs, &path[1..]),
            _ => unreachable!(),
        }
    }
}

/// Items before element `xi` split as in C12: certain ones, and Ends of unknown-size masters
/// that only the (faulty) element itself would imply.
fn before_split(e: &enc::Encoded, xi: usize) -> (Vec<TagV>, Vec<TagV>) {
    let el = &e.layout.elems[xi];
    let before: Vec<TagV> = e.items[..el.item].to_vec();
    let mut k = before.len();
    while k > 0 && before[k - 1].is_end() {
        k -= 1;
    }
    let mut certain = 0;
    for j in 0..before.len() - k {
        let item_idx = k + j;
        let m = e.layout.elems.iter().find(|m| m.is_master && m.end_item == item_idx).expect("layout");
        if m.size.is_some() {
            certain = j + 1;
        }
    }
    (before[..k + certain].to_vec(), before[k + certain..].to_vec())
}

fn make_fault(rng: &mut Rng, spec: &SpecTable, tier: Tier) -> Option<(Vec<u8>, FaultInfo, MaxSz)> {
    let mut o = cases::doc_opts_for(tier, rng);
    o.pay.max_len = 40;
    o.pay.boundary_pct = 0;
    o.raw_pct = 0;
    o.max_nodes = *rng.pick(&[4usize, 10, 25]);
    let class = match rng.below(4) {
        0 => Class::I,
        1 => Class::H,
        2 => Class::O,
        _ => Class::S,
    };
    match class {
        Class::I => {
            let doc = gen::gen_doc(rng, spec, &o);
            let mut e = enc::encode(&doc);
            let xi = rng.below(e.layout.elems.len() as u64) as usize;
            let el = e.layout.elems[xi].clone();
            let mut tries = 0;
            let nid = loop {
                let id = gen::gen_id(rng, el.id_len);
                if spec.get(id).is_none() {
                    break id;
                }
                tries += 1;
                if tries > 50 {
                    return None;
                }
            };
            e.bytes[el.off..el.off + el.id_len].copy_from_slice(&enc::id_bytes(nid));
            let (m, op) = before_split(&e, xi);
            Some((e.bytes, FaultInfo { class, off: el.off, id: nid, size: el.size.unwrap_or(0) as usize, parent: el.parent.map(|p| e.layout.elems[p].id), before_mandatory: m, before_optional: op }, MaxSz::Default))
        }
        Class::H => {
            // the master the element is put into has a known size (it holds the element by its byte range, whatever the
            // element is); the masters around it may have unknown sizes
            o.unknown_pct = *rng.pick(&[0u64, 0, 50]);
            let mut doc = gen::gen_doc(rng, spec, &o);
            let paths = preorder_paths(&doc);
            let masters: Vec<&Vec<usize>> = paths.iter().filter(|p| node_ref(&doc, p).is_master() && !node_ref(&doc, p).enc.unknown).collect();
            if masters.is_empty() {
                return None;
            }
            let pp = (*rng.pick(&masters)).clone();
            let mut chain: Vec<u64> = Vec::new();
            for d in 1..=pp.len() {
                chain.push(node_ref(&doc, &pp[..d]).id);
            }
            // any element of the specification that is not allowed here: a leaf, or an empty master
            let leaves: Vec<&crate::spec::ElemDef> = spec.elems.iter().filter(|e| !spec.allowed(e.id, &chain)).collect();
            if leaves.is_empty() {
                return None;
            }
            let l = *rng.pick(&leaves);
            let node = if l.ty == Ty::Master { Node::master(l.id, vec![]) } else { Node::leaf(l.id, gen::gen_leaf_val(rng, l.ty, &o.pay)) };
            let parent_id = *chain.last().unwrap();
            let pos = {
                let p = node_mut(&mut doc, &pp);
                let Body::Master(cs) = &mut p.body else { unreachable!() };
                // (not right after an unknown-size master, which the element might end or be read into)
                let spots: Vec<usize> = (0..=cs.len()).filter(|&i| i == 0 || !gen::ends_open(&cs[i - 1])).collect();
                let pos = *rng.pick(&spots);
                cs.insert(pos, node);
                pos
            };
            // explicit widths may no longer hold the grown sizes
            for n in doc.iter_mut() {
                if !enc::encodable(n) {
                    n.visit_mut(&mut |x| x.enc.size_w = 0);
                }
            }
            let mut fp = pp.clone();
            fp.push(pos);
            let xi = preorder_paths(&doc).iter().position(|p| *p == fp).unwrap();
            let e = enc::encode(&doc);
            let el = e.layout.elems[xi].clone();
            let (m, op) = before_split(&e, xi);
            Some((e.bytes, FaultInfo { class, off: el.off, id: l.id, size: el.size.unwrap_or(0) as usize, parent: Some(parent_id), before_mandatory: m, before_optional: op }, MaxSz::Default))
        }
        Class::O => {
            // known- and unknown-size masters may be mixed: what counts is some known-size ancestor
            o.unknown_pct = *rng.pick(&[0u64, 0, 50]);
            let doc = gen::gen_doc(rng, spec, &o);
            let mut e = enc::encode(&doc);
            if rng.chance(1, 3) {
                // the other way round: the innermost known-size ancestor is declared too short and ends inside the
                // header of a child (of any kind, also an unknown-size master, whose header alone must still fit)
                let cands: Vec<(usize, usize)> = (0..e.layout.elems.len())
                    .filter_map(|i| {
                        let anc = e.layout.ancestors(i);
                        // ancestors are listed innermost first or outermost first? take the known-size one that starts last
                        let a = anc.iter().copied().filter(|a| e.layout.elems[*a].size.is_some()).max_by_key(|a| e.layout.elems[*a].off)?;
                        // nothing known-size between it and the child
                        if anc.iter().any(|x| e.layout.elems[*x].off > e.layout.elems[a].off && e.layout.elems[*x].size.is_some()) {
                            return None;
                        }
                        Some((i, a))
                    })
                    .collect();
                if cands.is_empty() {
                    return None;
                }
                let (xi, ai) = *rng.pick(&cands);
                let el = e.layout.elems[xi].clone();
                let a = e.layout.elems[ai].clone();
                let hdr = el.data_start() - el.off;
                if hdr < 2 {
                    return None;
                }
                let k = rng.range(1, hdr - 1);
                let new_size = (el.off + k - a.data_start()) as u64;
                if new_size >= (1u64 << (7 * a.size_len)) - 1 {
                    return None;
                }
                e.bytes[a.off + a.id_len..a.data_start()].copy_from_slice(&enc::size_vint(new_size, a.size_len));
                let (m, op) = before_split(&e, xi);
                // the size the error carries is the child's declared size; what it says for an unknown-size child is not compared
                return Some((e.bytes, FaultInfo { class, off: el.off, id: el.id, size: el.size.map_or(usize::MAX, |s| s as usize), parent: el.parent.map(|p| e.layout.elems[p].id), before_mandatory: m, before_optional: op }, MaxSz::Limit(1 << 20)));
            }
            let cands: Vec<usize> = (0..e.layout.elems.len()).filter(|i| {
                let el = &e.layout.elems[*i];
                !el.is_master && matches!(spec.ty(el.id), Some(Ty::Bin) | Some(Ty::Utf8)) && e.layout.ancestors(*i).iter().any(|a| e.layout.elems[*a].size.is_some())
            }).collect();
            if cands.is_empty() {
                return None;
            }
            let xi = *rng.pick(&cands);
            let el = e.layout.elems[xi].clone();
            let anc_end = e.layout.ancestors(xi).iter().filter(|a| e.layout.elems[**a].size.is_some()).map(|a| e.layout.elems[*a].end).min().unwrap();
            let new_size = (anc_end - el.data_start()) as u64 + 1 + rng.below(20);
            if new_size >= (1u64 << (7 * el.size_len)) - 1 {
                return None;
            }
            e.bytes[el.off + el.id_len..el.data_start()].copy_from_slice(&enc::size_vint(new_size, el.size_len));
            let (m, op) = before_split(&e, xi);
            Some((e.bytes, FaultInfo { class, off: el.off, id: el.id, size: new_size as usize, parent: el.parent.map(|p| e.layout.elems[p].id), before_mandatory: m, before_optional: op }, MaxSz::Limit(1 << 20)))
        }
        Class::S => {
            o.unknown_pct = 100;
            let doc = gen::gen_doc(rng, spec, &o);
            let mut e = enc::encode(&doc);
            let cands: Vec<usize> = (0..e.layout.elems.len()).filter(|i| {
                let el = &e.layout.elems[*i];
                !el.is_master && matches!(spec.ty(el.id), Some(Ty::Bin) | Some(Ty::Utf8)) && e.layout.ancestors(*i).iter().all(|a| e.layout.elems[*a].size.is_none())
            }).collect();
            if cands.is_empty() {
                return None;
            }
            let xi = *rng.pick(&cands);
            let el = e.layout.elems[xi].clone();
            // every other element must stay within the limit: the limit is at least the largest declared size
            let largest = e.layout.elems.iter().filter_map(|x| x.size).max().unwrap_or(0) as usize;
            let limit = largest + rng.range(0, 10);
            let new_size = limit as u64 + 1 + rng.below(50);
            if new_size >= (1u64 << (7 * el.size_len)) - 1 {
                return None;
            }
            e.bytes[el.off + el.id_len..el.data_start()].copy_from_slice(&enc::size_vint(new_size, el.size_len));
            let (m, op) = before_split(&e, xi);
            Some((e.bytes, FaultInfo { class, off: el.off, id: el.id, size: new_size as usize, parent: el.parent.map(|p| e.layout.elems[p].id), before_mandatory: m, before_optional: op }, MaxSz::Limit(limit)))
        }
    }
}

fn run_with(rc: &ReadCase, allow: u8) -> RTrace {
    let mut cfg = rc.cfg.clone();
    cfg.allow = allow;
    let n = rc.input.len();
    run_reader(&rc.spec, &ReaderSetup { input: rc.input.clone(), virtual_tail: 0, cfg: &cfg, script: &rc.script, driver: &rc.driver, max_steps: 4 * n + 64, keep_read_log: false })
}

fn has_raw(t: &TagV) -> bool {
    match &t.val {
        Val::Raw(_) => true,
        Val::Full(cs) => cs.iter().any(has_raw),
        _ => false,
    }
}

impl Check for C13 {
    type Case = Case;
    fn id(&self) -> &'static str {
        "C13"
    }
    fn num(&self) -> u64 {
        13
    }
    fn level(&self) -> &'static str {
        "exploration"
    }
    fn runs(&self, tier: Tier) -> u64 {
        match tier {
            Tier::Quick => 1_500_000,
            Tier::Thorough => 45_000_000,
        }
    }

    fn gen(&self, seed: u64, spec_seed: u64, tier: Tier) -> Case {
        let mut rng = Rng::new(seed);
        let spec = cases::spec_for(spec_seed, &SpecOpts { shapes: true, ..Default::default() });
        if rng.chance(3, 5) {
            for _ in 0..4 {
                if let Some((bytes, fi, lim)) = make_fault(&mut rng, &spec, tier) {
                    // documents whose sizes are all honest can also be read with the limit removed
                    let lim = if lim == MaxSz::Default && rng.chance(1, 3) { MaxSz::Unlimited } else { lim };
                    let mut cfg = IterCfg { max_size: lim, capacity: io::gen_capacity(&mut rng, bytes.len()), ..Default::default() };
                    crate::harness::gen_cfg_history(&mut rng, &mut cfg);
                    let script = io::gen_rscript(&mut rng, bytes.len(), &[]);
                    return Case { rc: ReadCase { spec, input: Arc::new(bytes), cfg, script, driver: Driver::UntilEnd { extra: 0 }, class: "single-fault" }, fault: Some(fi) };
                }
            }
        }
        if rng.chance(1, 8) {
            // the limit is lowered on a running iterator: a valid document, `items` elements read under a generous limit,
            // then a small limit. "Stays in force until changed" means the new limit takes over; how many elements an
            // implementation has already read ahead at that moment is its own business, so the only demand is that it
            // does not go on accepting oversized elements (three or more of them) as if nothing had been set.
            let mut o = cases::doc_opts_for(tier, &mut rng);
            o.pay.max_len = 40;
            o.pay.boundary_pct = 0;
            o.raw_pct = 0;
            o.unknown_pct = *rng.pick(&[0u64, 30, 100]);
            o.max_nodes = *rng.pick(&[10usize, 25, 40]);
            let doc = gen::gen_doc(&mut rng, &spec, &o);
            let e = enc::encode(&doc);
            let n_el = e.layout.elems.len();
            if n_el >= 2 {
                let items = rng.range(1, n_el - 1);
                let limit = rng.range(0, 3);
                let cfg = IterCfg { max_size: if rng.chance(1, 2) { MaxSz::Default } else { MaxSz::Limit(1 << 20) }, capacity: io::gen_capacity(&mut rng, e.bytes.len()), ..Default::default() };
                let script = io::gen_rscript(&mut rng, e.bytes.len(), &[]);
                return Case { rc: ReadCase { spec, input: Arc::new(e.bytes), cfg, script, driver: Driver::LimitAfter { items, limit }, class: "limit-lowered-mid-stream" }, fault: None };
            }
        }
        let mut fs = FaultStats::default();
        let mut doc = cases::doc_opts_for(tier, &mut rng);
        doc.pay.max_len = doc.pay.max_len.min(300);
        doc.raw_pct = *rng.pick(&[0u64, 10]);
        let io_o = InputOpts { doc, faulted_pct: 60, truncated_pct: 5, random_pct: 5, soup_pct: 10, max_faults: 3, mid_document_pct: 0 };
        let gi = cases::gen_input(&mut rng, &spec, &io_o, &mut fs);
        let mut cfg = IterCfg { max_size: MaxSz::Limit(*rng.pick(&[4usize, 30, 1000, 1 << 20])), capacity: io::gen_capacity(&mut rng, gi.bytes.len()), buffered: cases::gen_buffered(&mut rng, &spec, 15), ..Default::default() };
        crate::harness::gen_cfg_history(&mut rng, &mut cfg);
        let script = io::gen_rscript(&mut rng, gi.bytes.len(), &[]);
        Case { rc: ReadCase { spec, input: Arc::new(gi.bytes), cfg, script, driver: Driver::UntilEnd { extra: 0 }, class: gi.class }, fault: None }
    }

    fn exec(&self, c: &Case, st: &mut Stats) -> Result<ExecOk, Fail> {
        let runs: Vec<RTrace> = (0u8..8).map(|a| run_with(&c.rc, a)).collect();
        for r in &runs {
            st.add("api_calls", r.api_calls as u64);
            st.add("read_calls", r.read_calls as u64);
        }
        st.add("configurations", 8);
        if runs.iter().any(|r| r.panic().is_some() || r.budget_exceeded || r.step_cap_hit) {
            st.inc("skipped_not_total");
            return Ok(ExecOk { nontrivial: false });
        }
        // a switch makes its own error kind impossible
        for (a, r) in runs.iter().enumerate() {
            for ev in &r.evs {
                let e = match ev {
                    crate::harness::Ev::Err(e) => e,
                    _ => continue,
                };
                let a = a as u8;
                let bad = match e {
                    ErrV::InvalidTagId { .. } => a & ALLOW_IDS != 0,
                    ErrV::Hierarchy { .. } => a & ALLOW_HIER != 0,
                    ErrV::OversizedChild { .. } => a & ALLOW_OVERSIZE != 0,
                    _ => false,
                };
                if bad {
                    fail!("tolerated-kind-reported", "with tolerance set {:#05b} the parse still reports {}\n trace: {}", a, e.short(), r.short(40));
                }
            }
            // no raw tag unless unknown ids are tolerated
            if a as u8 & ALLOW_IDS == 0 {
                if let Some((t, _)) = r.ok_prefix().iter().find(|(t, _)| has_raw(t)) {
                    fail!("raw-tag-in-strict-ids", "with tolerance set {:#05b} (unknown ids not tolerated) the parse yields the raw tag {}\n trace: {}", a, t.short(), r.short(40));
                }
            }
        }
        // relaxing never loses tags (inputs that start at a root element)
        let strict = runs[0].ok_prefix();
        let starts_at_root = strict.first().map(|(t, _)| c.rc.spec.is_root(t.id)).unwrap_or(false);
        if starts_at_root {
            st.inc("prefix_checks");
            for a in 1..8usize {
                let tol = runs[a].ok_prefix();
                let k = strict.iter().zip(tol.iter()).take_while(|(x, y)| x == y).count();
                if k < strict.len() {
                    fail!("relaxing-loses-tags", "item {} of the strict parse ({}) is not item {} of the parse with tolerance set {:#05b} ({})\n strict:   {}\n tolerant: {}", k, strict[k].0.short(), k, a, tol.get(k).map(|t| t.0.short()).unwrap_or("<error/end>".into()), runs[0].short(40), runs[a].short(40));
                }
                if tol.len() > strict.len() {
                    st.inc("probe_tolerant_run_went_further");
                }
            }
        }
        // limit lowered mid-stream: the new limit takes over (see gen)
        if let Driver::LimitAfter { limit, .. } = &c.rc.driver {
            st.inc("probe_limit_lowered_mid_stream");
            for (a, r) in runs.iter().enumerate() {
                if let Some(k) = r.evs.iter().position(|e| matches!(e, crate::harness::Ev::Cfg)) {
                    let over = r.evs[k..].iter().filter(|e| match e {
                        crate::harness::Ev::Tag(t, _) => match &t.val {
                            Val::B(b) | Val::Raw(b) => b.len() > *limit,
                            Val::S(x) => x.len() > *limit,
                            _ => false,
                        },
                        _ => false,
                    }).count();
                    if over >= 3 {
                        fail!("limit-not-in-force", "with tolerance set {:#05b}: after set_max_allowable_tag_size(Some({})) was called mid-stream, {} further elements with larger payloads were emitted\n trace: {}", a, limit, over, r.short(60));
                    }
                    if r.evs[k..].iter().any(|e| matches!(e, crate::harness::Ev::Err(ErrV::InvalidTagSize { .. }))) {
                        st.inc("probe_lowered_limit_enforced");
                    }
                }
            }
        }
        // single injected fault: the specific kind at the offending element when not tolerated
        if let Some(f) = &c.fault {
            st.inc(match f.class {
                Class::I => "fault_invalid_id",
                Class::H => "fault_hierarchy",
                Class::O => "fault_oversized_child",
                Class::S => "fault_size_above_limit",
            });
            for a in 0u8..8 {
                if f.class.switch() != 0 && a & f.class.switch() != 0 {
                    continue;
                }
                let r = &runs[a as usize];
                let got: Vec<TagV> = r.ok_prefix().into_iter().map(|(t, _)| t).collect();
                let m = f.before_mandatory.len();
                let ctx = format!("tolerance set {:#05b}, injected class {} at offset {} (id {:x})\n trace: {}", a, f.class.name(), f.off, f.id, r.short(50));
                if got.len() < m || got[..m] != f.before_mandatory[..] || got.len() - m > f.before_optional.len() || got[m..] != f.before_optional[..got.len() - m] {
                    fail!("items-before-fault", "expected exactly the {} items before the faulty element (optionally followed by a prefix of {:?}), got {} items; {}", m, f.before_optional.iter().map(|t| t.short()).collect::<Vec<_>>(), got.len(), ctx);
                }
                let want = match f.class {
                    Class::I => ErrV::InvalidTagId { pos: f.off, id: f.id },
                    Class::H => ErrV::Hierarchy { found: f.id, parent: f.parent },
                    Class::O => ErrV::OversizedChild { pos: f.off, id: f.id, size: f.size },
                    Class::S => ErrV::InvalidTagSize { pos: f.off, id: f.id, size: f.size },
                };
                // what the property fixes is the kind and the offset (for an unknown id and a misplaced element also the id, which
                // is what the error is about); the parent a hierarchy error names and the id and size fields of the
                // overrun and size-limit errors are not compared
                let same = |e: &ErrV| match (e, &want) {
                    (ErrV::Hierarchy { found: a, .. }, ErrV::Hierarchy { found: b, .. }) => a == b,
                    (ErrV::OversizedChild { pos: p1, .. }, ErrV::OversizedChild { pos: p2, .. }) => p1 == p2,
                    (ErrV::InvalidTagSize { pos: p1, .. }, ErrV::InvalidTagSize { pos: p2, .. }) => p1 == p2,
                    (x, y) => x == y,
                };
                match r.first_error() {
                    Some(e) if same(e) => {}
                    Some(e) if e.kind() == f.class.kind() => fail!("error-fields", "expected {} but got {}; {}", want.short(), e.short(), ctx),
                    other => fail!("error-kind", "expected {} as first error but got {:?}; {}", want.short(), other.map(|e| e.short()), ctx),
                }
            }
        }
        Ok(ExecOk { nontrivial: c.fault.is_some() || strict.len() >= 2 })
    }

    fn fingerprint(&self, c: &Case) -> u64 {
        c.rc.fingerprint() ^ c.fault.as_ref().map(|f| (f.off as u64) << 20 | f.id).unwrap_or(0)
    }

    fn to_j(&self, c: &Case) -> J {
        let mut j = c.rc.to_j();
        j["fault"] = match &c.fault {
            None => J::Null,
            Some(f) => json!({
                "class": f.class.name(), "off": f.off, "id": format!("{:x}", f.id), "size": f.size, "parent": f.parent.map(|p| format!("{:x}", p)),
                "before_mandatory": f.before_mandatory.iter().map(|t| t.to_j()).collect::<Vec<_>>(),
                "before_optional": f.before_optional.iter().map(|t| t.to_j()).collect::<Vec<_>>(),
            }),
        };
        j
    }

    fn from_j(&self, j: &J) -> Result<Case, String> {
        let rc = ReadCase::from_j(j)?;
        let fault = match j.get("fault") {
            Some(J::Null) | None => None,
            Some(f) => {
                let tags = |k: &str| -> Result<Vec<TagV>, String> { f.get(k).and_then(|v| v.as_array()).ok_or("fault tags")?.iter().map(TagV::from_j).collect() };
                Some(FaultInfo {
                    class: match f.get("class").and_then(|v| v.as_str()) {
                        Some("I") => Class::I,
                        Some("H") => Class::H,
                        Some("O") => Class::O,
                        Some("S") => Class::S,
                        _ => return Err("fault.class".into()),
                    },
                    off: f.get("off").and_then(|v| v.as_u64()).ok_or("fault.off")? as usize,
                    id: u64::from_str_radix(f.get("id").and_then(|v| v.as_str()).ok_or("fault.id")?, 16).map_err(|e| e.to_string())?,
                    size: f.get("size").and_then(|v| v.as_u64()).ok_or("fault.size")? as usize,
                    parent: f.get("parent").and_then(|v| v.as_str()).map(|s| u64::from_str_radix(s, 16).unwrap_or(0)),
                    before_mandatory: tags("before_mandatory")?,
                    before_optional: tags("before_optional")?,
                })
            }
        };
        Ok(Case { rc, fault })
    }

    fn shrink(&self, c: &Case) -> Vec<Case> {
        // single-fault documents keep their bytes (the premise "exactly one fault of class K" is
        // established by construction); free inputs shrink freely
        c.rc.shrink(c.fault.is_none()).into_iter().filter(|rc| c.fault.is_none() || rc.spec == c.rc.spec).map(|rc| Case { rc, fault: c.fault.clone() }).collect()
    }

    fn rule(&self) -> &'static str {
        "One case = specification + bytes + size limit + delivery schedule, parsed under ALL 8 subsets of tolerated error classes. Bytes are either a valid document with exactly one structural fault injected via the layout — (I) id replaced by a well-formed id outside the specification, (H) a leaf or empty master inserted into a known-size master (itself possibly inside unknown-size ones) where its path does not allow it, (O) a child's size inflated past a known-size ancestor, (S) a binary/string element under unknown-size masters declaring more than the limit — or arbitrary byte-faulted / random / header-soup input. Checked: specific error kind and fields at the faulty element after exactly the items before it when the class is not tolerated; no tolerated kind ever reported; no raw tag without InvalidTagIds; strict items a prefix of every tolerant run (inputs starting at a root element). One run in eight lowers the limit on a running iterator (valid document, k elements read, then a limit of 0-3 bytes): the parse must not go on emitting elements with larger payloads (three or more) as if nothing had been set, under every tolerance set. Non-trivial: single-fault case, or at least two strict items. Distinct: FNV-1a fingerprint of bytes + configuration + schedule + fault position."
    }
    fn assumptions(&self) -> Vec<&'static str> {
        vec![
            "the default 4 GB limit is exercised by C17 (in child processes with an allocation cap), not here",
            "documented tolerance as in C12: Ends of unknown-size masters implied only by the faulty element may or may not precede the error",
        ]
    }
    fn expected_probes(&self) -> Vec<&'static str> {
        vec!["fault_invalid_id", "fault_hierarchy", "fault_oversized_child", "fault_size_above_limit", "prefix_checks", "probe_tolerant_run_went_further", "probe_limit_lowered_mid_stream", "probe_lowered_limit_enforced"]
    }
}
