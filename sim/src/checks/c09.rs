//! C09 — writer output does not depend on how the same document is presented.

use serde_json::{json, Value as J};

use crate::cases;
use crate::enc::{self, Node};
use crate::fail;
use crate::gen::{self, SpecOpts};
use crate::harness::{run_writer, WOp, WTrace};
use crate::io::{self, WScript};
use crate::refdec::walk;
use crate::rng::Rng;
use crate::runner::{Check, ExecOk, Fail, Fp, Stats, Tier};
use crate::spec::SpecTable;
use crate::val::TagV;
use crate::wcases::{self, PresentOpts};

pub struct C09;

#[derive(Clone, Debug)]
pub struct Case {
    pub spec: SpecTable,
    pub doc: Vec<Node>,
    /// (presentation seed, full %, deprecated %, write_raw %, sink script)
    pub variants: Vec<(u64, u64, u64, u64, WScript)>,
}

fn ops_for(doc: &[Node], seed: u64, full: u64, dep: u64, raw: u64) -> Vec<WOp> {
    let mut ops = Vec::new();
    let mut r = Rng::new(seed);
    wcases::present(&mut r, doc, &PresentOpts { full_pct: full, deprecated_pct: dep, write_raw_pct: raw }, &mut ops);
    ops
}

fn describe(ops: &[WOp]) -> String {
    ops.iter().map(|o| o.short()).collect::<Vec<_>>().join(" ")
}

fn accepted(w: &WTrace) -> bool {
    w.all_ok()
}

impl Check for C09 {
    type Case = Case;
    fn id(&self) -> &'static str {
        "C09"
    }
    fn num(&self) -> u64 {
        9
    }
    fn level(&self) -> &'static str {
        "exploration"
    }
    fn runs(&self, tier: Tier) -> u64 {
        match tier {
            Tier::Quick => 1_500_000,
            Tier::Thorough => 45_000_000,
        }
    }

    fn gen(&self, seed: u64, spec_seed: u64, tier: Tier) -> Case {
        let mut rng = Rng::new(seed);
        let spec = cases::spec_for(spec_seed, &SpecOpts::default());
        let mut o = cases::doc_opts_for(tier, &mut rng);
        o.noncanonical_pct = 0;
        o.raw_pct = *rng.pick(&[0u64, 10]);
        o.pay.max_len = o.pay.max_len.min(16385);
        let mut doc = gen::gen_doc(&mut rng, &spec, &o);
        if rng.chance(1, 8) {
            // one element is given a width that cannot hold its size (one less than the narrowest that can): the writer can
            // only reject that, in every presentation alike; if it accepts, the output is judged like any other
            let mut plain = doc.clone();
            for n in plain.iter_mut() {
                n.visit_mut(&mut |x| x.enc = enc::Enc::default());
            }
            let e = enc::encode(&plain);
            let cands: Vec<(usize, u8)> = e.layout.elems.iter().enumerate().filter_map(|(i, el)| el.size.map(|s| (i, enc::min_size_width(s) as u8 - 1))).filter(|(_, w)| *w >= 1).collect();
            if !cands.is_empty() {
                let (target, w) = *rng.pick(&cands);
                let mut k = 0usize;
                for n in doc.iter_mut() {
                    n.visit_mut(&mut |x| {
                        if k == target {
                            x.enc.unknown = false;
                            x.enc.size_w = w;
                        }
                        k += 1;
                    });
                }
            }
        }
        let nv = rng.range(2, 5);
        // raw elements go through write(RawTag) in every presentation of a case, or through write_raw in every one: that
        // the two calls write the same bytes is not among the equivalences C09 states (C01 round-trips both)
        let raw_call = *rng.pick(&[0u64, 100]);
        let variants = (0..nv).map(|_| (rng.next(), *rng.pick(&[30u64, 60, 100]), *rng.pick(&[0u64, 50, 100]), raw_call, io::gen_wscript(&mut rng))).collect();
        Case { spec, doc, variants }
    }

    fn exec(&self, c: &Case, st: &mut Stats) -> Result<ExecOk, Fail> {
        // reference presentation: Start / children / End, option-based unknown size, whole writes; raw elements through the
        // call this case uses throughout
        let raw_call = c.variants.first().map_or(0, |v| v.3);
        if c.variants.iter().any(|v| v.3 != raw_call) || (raw_call != 0 && raw_call != 100) {
            st.inc("out_of_scope");
            return Ok(ExecOk { nontrivial: false });
        }
        let ops0 = ops_for(&c.doc, 1, 0, 0, raw_call);
        let w0 = run_writer(&c.spec, &ops0, &WScript::default(), true);
        st.add("writer_calls", ops0.len() as u64 + 1);
        if let Some(p) = &w0.panic {
            fail!("writer-panic", "{}", p);
        }
        let acc0 = accepted(&w0);
        if !acc0 {
            st.inc("reference_presentation_rejected");
        }
        if !c.doc.iter().all(enc::encodable) {
            st.inc("probe_width_too_narrow_for_the_size");
        }
        let mut nontrivial = false;
        for (seed, full, dep, raw, ws) in &c.variants {
            let ops = ops_for(&c.doc, *seed, *full, *dep, *raw);
            let w = run_writer(&c.spec, &ops, ws, true);
            st.add("writer_calls", ops.len() as u64 + 1);
            st.add("sink_write_calls", w.write_calls as u64);
            st.add("fault_partial_writes", w.partial_writes as u64);
            st.inc("presentations");
            if let Some(p) = &w.panic {
                fail!("writer-panic", "{}\n calls: {}", p, describe(&ops));
            }
            if ops.iter().any(|o| matches!(o, WOp::Write(t, _) if t.is_full())) {
                st.inc("probe_full_presentation");
                nontrivial = true;
            }
            if ops.iter().any(|o| matches!(o, WOp::WriteUnknownDeprecated(_))) {
                st.inc("probe_deprecated_unknown_call");
            }
            if ops.iter().any(|o| matches!(o, WOp::WriteRaw(..))) {
                st.inc("probe_write_raw_call");
            }
            if w.partial_writes >= 2 {
                st.inc("probe_two_or_more_partial_writes");
            }
            if accepted(&w) != acc0 {
                fail!("acceptance-differs", "the Start/End presentation is {} but this one is {}\n reference: {}\n this:      {}", if acc0 { "accepted" } else { "rejected" }, if accepted(&w) { "accepted" } else { "rejected" }, describe(&ops0), describe(&ops));
            }
            if acc0 && w.out != w0.out {
                let k = w.out.iter().zip(w0.out.iter()).take_while(|(a, b)| a == b).count();
                fail!("bytes-differ", "outputs differ at byte {} ({} vs {} bytes)\n reference: {}\n this:      {}\n sink script: {}", k, w0.out.len(), w.out.len(), describe(&ops0), describe(&ops), ws.to_j());
            }
        }
        if !acc0 {
            return Ok(ExecOk { nontrivial: false });
        }
        // size-field widths are honoured exactly; options touch size fields only
        let items: Vec<TagV> = wcases::written_tags(&ops0);
        // Whether the writer's output decodes to the written tags at all is C01's subject. Here the question is what the
        // options do: the same document without any width/unknown option is the yardstick, and when even that one does not
        // decode the case is left to C01 (counted).
        let mut plain = c.doc.clone();
        for n in plain.iter_mut() {
            n.visit_mut(&mut |x| x.enc = enc::Enc::default());
        }
        let ops_p = ops_for(&plain, 1, 0, 0, raw_call);
        let wp = run_writer(&c.spec, &ops_p, &WScript::default(), true);
        if !accepted(&wp) {
            fail!("options-change-acceptance", "with options the calls are accepted, without them not\n calls: {}", describe(&ops_p));
        }
        let wkp = match walk(&c.spec, &wp.out, &items, 0) {
            Ok((x, e)) if e == wp.out.len() => x,
            _ => {
                st.inc("plain_output_not_decodable_left_to_C01");
                return Ok(ExecOk { nontrivial: false });
            }
        };
        let (wk, end) = match walk(&c.spec, &w0.out, &items, 0) {
            Ok(x) => x,
            Err(e) => fail!("output-not-decodable", "without size options the output decodes to the written tags, with them it does not: item {}: {}\n calls: {}", e.item, e.what, describe(&ops0)),
        };
        if end != w0.out.len() {
            fail!("output-not-decodable", "without size options the output decodes to the written tags, with them {} bytes trail the last tag", w0.out.len() - end);
        }
        // the nodes in document order line up with the non-End walked items
        fn collect<'a>(s: &'a [Node], out: &mut Vec<&'a Node>) {
            for n in s {
                out.push(n);
                collect(n.children(), out);
            }
        }
        let mut nodes: Vec<&Node> = Vec::new();
        collect(&c.doc, &mut nodes);
        let non_end: Vec<&crate::refdec::Walked> = wk.iter().filter(|w| !w.tag.is_end()).collect();
        if nodes.len() != non_end.len() {
            fail!("harness", "node/item count mismatch {} vs {}", nodes.len(), non_end.len());
        }
        for (n, w) in nodes.iter().zip(non_end.iter()) {
            let size_len = w.hdr_len - enc::id_bytes(n.id).len();
            if n.is_master() && n.enc.unknown {
                if w.size.is_some() {
                    fail!("unknown-size-not-reserved", "master {:x} written with unknown size has the size field value {:?}", n.id, w.size);
                }
                st.inc("probe_unknown_size_written");
            } else if n.enc.size_w != 0 {
                if size_len != n.enc.size_w as usize {
                    fail!("width-not-honoured", "element {:x} written with size width {} has a {}-byte size field", n.id, n.enc.size_w, size_len);
                }
                st.inc(match n.enc.size_w {
                    1 => "probe_width_1",
                    2 => "probe_width_2",
                    3 => "probe_width_3",
                    4 => "probe_width_4",
                    5 => "probe_width_5",
                    6 => "probe_width_6",
                    7 => "probe_width_7",
                    _ => "probe_width_8",
                });
                if n.is_master() {
                    st.inc("probe_backpatched_master_width");
                }
            }
        }
        // ids and payload bytes identical with and without options, in order
        for (a, b) in wk.iter().zip(wkp.iter()) {
            if a.tag.is_end() || a.tag.is_start() {
                continue;
            }
            let pa = &w0.out[a.off + a.hdr_len..a.off + a.hdr_len + a.size.unwrap_or(0) as usize];
            let pb = &wp.out[b.off + b.hdr_len..b.off + b.hdr_len + b.size.unwrap_or(0) as usize];
            if pa != pb {
                fail!("options-change-payload", "payload bytes of {} differ with and without size options", a.tag.short());
            }
        }
        Ok(ExecOk { nontrivial })
    }

    fn fingerprint(&self, c: &Case) -> u64 {
        let mut f = Fp::default();
        if c.doc.iter().all(enc::encodable) {
            f.bytes(&enc::encode(&c.doc).bytes);
        } else {
            f.bytes(enc::doc_to_j(&c.doc).to_string().as_bytes());
        }
        for v in &c.variants {
            f.u(v.0).u(v.1).u(v.2).u(v.3);
        }
        for e in &c.spec.elems {
            f.u(e.id).u(e.ty as u64);
        }
        f.0
    }

    fn to_j(&self, c: &Case) -> J {
        json!({
            "spec": c.spec.to_j(), "doc": enc::doc_to_j(&c.doc),
            "variants": c.variants.iter().map(|(s, f, d, r, w)| json!({"seed": s, "full_pct": f, "deprecated_pct": d, "write_raw_pct": r, "wscript": w.to_j(), "calls": describe(&ops_for(&c.doc, *s, *f, *d, *r))})).collect::<Vec<_>>(),
        })
    }

    fn from_j(&self, j: &J) -> Result<Case, String> {
        let mut variants = Vec::new();
        for v in j.get("variants").and_then(|v| v.as_array()).ok_or("variants")? {
            let g = |k: &str| v.get(k).and_then(|x| x.as_u64()).ok_or(format!("variant.{}", k));
            variants.push((g("seed")?, g("full_pct")?, g("deprecated_pct")?, g("write_raw_pct")?, WScript::from_j(v.get("wscript").ok_or("wscript")?)?));
        }
        Ok(Case { spec: SpecTable::from_j(j.get("spec").ok_or("spec")?)?, doc: enc::doc_from_j(j.get("doc").ok_or("doc")?)?, variants })
    }

    fn shrink(&self, c: &Case) -> Vec<Case> {
        let mut v = Vec::new();
        if c.variants.len() > 1 {
            for i in 0..c.variants.len() {
                v.push(Case { variants: vec![c.variants[i].clone()], ..c.clone() });
            }
        }
        for i in 0..c.variants.len() {
            if c.variants[i].4 != WScript::default() {
                let mut vs = c.variants.clone();
                vs[i].4 = WScript::default();
                v.push(Case { variants: vs, ..c.clone() });
            }
        }
        for d in cases::shrink_doc(&c.doc) {
            v.push(Case { doc: d, ..c.clone() });
        }
        if let Some(s) = cases::prune_spec(&c.spec, &c.doc, &[]) {
            v.push(Case { spec: s, ..c.clone() });
        }
        v
    }

    fn rule(&self) -> &'static str {
        "One case = specification + tag tree with per-element size options (width 1-8 / unknown size) written 3-6 times: the reference presentation (Start/children/End, option-based unknown size, whole writes) and 2-5 drawn presentations (subtrees collapsed into Full incl. nested Full, deprecated write_unknown_size) each through its own short-writing sink; raw elements go through write(RawTag) in all presentations of a case or through write_raw in all of them. Outputs must be byte-identical; in the output every explicit width is the size field's exact length, unknown size is the reserved value, and removing all options changes size fields only (ids and payload bytes compared). One case in eight gives one element a width one less than the narrowest that holds its size (e.g. 128 bytes under width 1): every presentation must be rejected or accepted alike, and an accepted output is judged as usual. Non-trivial: at least one presentation used a Full item. Distinct: FNV-1a fingerprint of the encoded tree + presentation seeds + specification."
    }
    fn assumptions(&self) -> Vec<&'static str> {
        vec!["sink errors are not injected: the property speaks of partial writes only", "element positions in the output are found by the reference walker (refdec.rs), not by the iterator under test"]
    }
    fn expected_probes(&self) -> Vec<&'static str> {
        vec!["probe_full_presentation", "probe_deprecated_unknown_call", "probe_write_raw_call", "probe_two_or_more_partial_writes", "probe_unknown_size_written", "probe_width_1", "probe_width_8", "probe_backpatched_master_width", "probe_width_too_narrow_for_the_size"]
    }
}
