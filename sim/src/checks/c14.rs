//! C14 — recovery after inserted junk resumes at the next tag and loses nothing else.
//! Fault enumeration: every tag boundary of each generated known-size document × junk runs.

use std::sync::Arc;

use serde_json::{json, Value as J};

use crate::cases;
use crate::enc::{self, Encoded, Node};
use crate::fail;
use crate::gen::{self, SpecOpts};
use crate::harness::{run_reader, Driver, Ev, IterCfg, ReaderSetup};
use crate::io::{self, RScript};
use crate::rng::Rng;
use crate::runner::{Check, ExecOk, Fail, Fp, Stats, Tier};
use crate::spec::SpecTable;
use crate::val::{bytes_from_j, bytes_to_j, ErrV, TagV};

pub struct C14;

#[derive(Clone, Debug)]
pub struct Case {
    pub spec: SpecTable,
    pub doc: Vec<Node>,
    /// (boundary offset, junk bytes); None = every boundary × 3 drawn junk runs
    pub at: Option<(usize, Vec<u8>)>,
    pub jseed: u64,
    pub capacity: Option<usize>,
    pub rscript: RScript,
    /// tolerated error classes (never invalid ids: then the junk might be read as raw tags)
    pub allow: u8,
}

/// Bytes that cannot begin an id of the specification: every byte value that is not the first byte
/// of any declared id (0x00 has no length marker at all). The generator additionally keeps
/// 0x08..=0x0F free of ids, so the alphabet always contains long-id markers.
fn junk_alphabet(spec: &SpecTable) -> Vec<u8> {
    let firsts: Vec<u8> = spec.elems.iter().map(|e| enc::id_bytes(e.id)[0]).collect();
    (0u8..=255).filter(|b| !firsts.contains(b)).collect()
}

fn gen_junk(rng: &mut Rng, alphabet: &[u8]) -> Vec<u8> {
    let n = match rng.below(4) {
        0 => 1,
        1 => rng.range(1, 3),
        _ => rng.range(1, 12),
    };
    // half of the runs from the long-id markers (their bogus ids swallow following real bytes)
    let long: Vec<u8> = alphabet.iter().copied().filter(|b| *b < 0x20).collect();
    let pool: &[u8] = if !long.is_empty() && rng.chance(1, 2) { &long } else { alphabet };
    (0..n).map(|_| *rng.pick(pool)).collect()
}

fn check_one(c: &Case, e: &Encoded, b: usize, junk: &[u8], st: &mut Stats) -> Result<(), Fail> {
    let k = junk.len();
    let mut bytes = e.bytes[..b].to_vec();
    bytes.extend_from_slice(junk);
    bytes.extend_from_slice(&e.bytes[b..]);
    let n = bytes.len();
    let input = Arc::new(bytes);
    let cfg = IterCfg { capacity: c.capacity, allow: c.allow & !crate::harness::ALLOW_IDS, ..Default::default() };
    let tr = run_reader(&c.spec, &ReaderSetup { input: input.clone(), virtual_tail: 0, cfg: &cfg, script: &c.rscript, driver: &Driver::Recovering { max_errors: 64, extra: 0 }, max_steps: 6 * n + 64, keep_read_log: false });
    st.add("api_calls", tr.api_calls as u64);
    st.add("read_calls", tr.read_calls as u64);
    st.inc("junk_insertions");
    let ctx = || format!("junk {} inserted at boundary {} of {} bytes\n trace: {}", crate::val::hex(junk), b, e.bytes.len(), tr.short(60));
    // general clause
    if let Some(p) = tr.panic() {
        fail!("panic", "panicked: {}; {}", p, ctx());
    }
    if tr.budget_exceeded || tr.step_cap_hit {
        fail!("no-termination", "{}", ctx());
    }
    let mut last_off: Option<usize> = None;
    for ev in &tr.evs {
        match ev {
            Ev::Tag(t, o) if !t.is_end() => {
                if let Some(l) = last_off {
                    if *o <= l {
                        fail!("moved-backwards", "non-End item {} at offset {} after an item at offset {}; {}", t.short(), o, l, ctx());
                    }
                }
                last_off = Some(*o);
            }
            Ev::RecoverErr(x) if !matches!(x, ErrV::Eof { .. } | ErrV::Read { .. }) => fail!("recover-error-kind", "try_recover() failed with {}; {}", x.short(), ctx()),
            _ => {}
        }
    }
    // precondition of the main clause, evaluated on the layout: a tag follows the junk and, shifted by
    // the junk length, still fits inside every enclosing known-size master
    let Some(xi) = e.layout.elems.iter().position(|x| x.off == b) else {
        st.inc("junk_at_end_of_input");
        return Ok(());
    };
    let x = &e.layout.elems[xi];
    let x_extent_end = if x.is_master { x.data_start() } else { x.end };
    let _ = x_extent_end;
    let fits = e.layout.ancestors(xi).iter().all(|a| x.end + k <= e.layout.elems[*a].end);
    if !fits {
        st.inc("precondition_fails");
        return Ok(());
    }
    st.inc("precondition_holds");
    // expected: items before X, one error, RecoverOk, items from X on (offsets shifted), None
    let mut want: Vec<(TagV, usize)> = Vec::new();
    // offsets of the undamaged document per item
    let mut offs: Vec<usize> = vec![0; e.items.len()];
    for el in &e.layout.elems {
        offs[el.item] = el.off;
        if el.is_master {
            offs[el.end_item] = el.off;
        }
    }
    for (i, t) in e.items.iter().enumerate() {
        let o = offs[i];
        want.push((t.clone(), if o >= b { o + k } else { o }));
    }
    let split = x.item;
    let got_tags: Vec<(TagV, usize)> = tr.tags();
    let errors = tr.evs.iter().filter(|e| matches!(e, Ev::Err(_))).count();
    let first_err_pos = tr.evs.iter().position(|e| matches!(e, Ev::Err(_)));
    let Some(fe) = first_err_pos else {
        fail!("no-error-reported", "the junk was not reported at all; {}", ctx());
    };
    let before: Vec<(TagV, usize)> = tr.evs[..fe].iter().filter_map(|e| if let Ev::Tag(t, o) = e { Some((t.clone(), *o)) } else { None }).collect();
    if before != want[..split] {
        let j = before.iter().zip(want.iter()).take_while(|(a, b)| a == b).count();
        fail!("tags-before-junk", "item {} before the junk: expected {:?} got {:?}; {}", j, want.get(j).map(|t| (t.0.short(), t.1)), before.get(j).map(|t| (t.0.short(), t.1)), ctx());
    }
    if !matches!(tr.evs.get(fe + 1), Some(Ev::RecoverOk)) {
        fail!("recover-failed", "try_recover() after the junk error returned {:?}; {}", tr.evs.get(fe + 1).map(|e| e.short()), ctx());
    }
    if errors != 1 {
        fail!("more-than-one-error", "{} errors were reported; {}", errors, ctx());
    }
    if got_tags != want {
        let j = got_tags.iter().zip(want.iter()).take_while(|(a, b)| a == b).count();
        fail!("tags-after-recovery", "item {}: expected {:?} got {:?}; {}", j, want.get(j).map(|t| (t.0.short(), t.1)), got_tags.get(j).map(|t| (t.0.short(), t.1)), ctx());
    }
    if !matches!(tr.evs.last(), Some(Ev::None)) {
        fail!("no-clean-end", "{}", ctx());
    }
    st.add("bytes_skipped_by_recovery", k as u64);
    if !e.layout.ancestors(xi).is_empty() {
        st.inc("probe_recovery_inside_known_size_master");
    }
    Ok(())
}

impl Check for C14 {
    type Case = Case;
    fn id(&self) -> &'static str {
        "C14"
    }
    fn num(&self) -> u64 {
        14
    }
    fn level(&self) -> &'static str {
        "fault_enumeration"
    }
    fn runs(&self, tier: Tier) -> u64 {
        match tier {
            Tier::Quick => 700_000,
            Tier::Thorough => 21_000_000,
        }
    }

    fn gen(&self, seed: u64, spec_seed: u64, tier: Tier) -> Case {
        let mut rng = Rng::new(seed);
        let spec = cases::spec_for(spec_seed, &SpecOpts { reserve_junk: true, ..Default::default() });
        let mut o = cases::doc_opts_for(tier, &mut rng);
        o.unknown_pct = 0;
        o.pay.max_len = *rng.pick(&[8usize, 24, 130]);
        o.max_nodes = *rng.pick(&[3usize, 8, 20]);
        let doc = gen::gen_doc(&mut rng, &spec, &o);
        let n = enc::encode(&doc).bytes.len();
        Case { spec, doc, at: None, jseed: rng.next(), capacity: io::gen_capacity(&mut rng, n), rscript: io::gen_rscript(&mut rng, n, &[]), allow: *rng.pick(&[0u8, 0, 0, crate::harness::ALLOW_HIER, crate::harness::ALLOW_OVERSIZE, crate::harness::ALLOW_HIER | crate::harness::ALLOW_OVERSIZE]) }
    }

    fn exec(&self, c: &Case, st: &mut Stats) -> Result<ExecOk, Fail> {
        let e = enc::encode(&c.doc);
        if e.layout.elems.iter().any(|x| x.size.is_none()) {
            st.inc("out_of_scope");
            return Ok(ExecOk { nontrivial: false });
        }
        st.inc("documents");
        match &c.at {
            Some((b, junk)) => {
                let alphabet = junk_alphabet(&c.spec);
                if !e.layout.boundaries(e.bytes.len()).contains(b) || junk.iter().any(|x| !alphabet.contains(x)) || junk.is_empty() {
                    st.inc("out_of_scope");
                    return Ok(ExecOk { nontrivial: false });
                }
                check_one(c, &e, *b, junk, st)?;
            }
            None => {
                let mut jr = Rng::new(c.jseed);
                let alphabet = junk_alphabet(&c.spec);
                for b in e.layout.boundaries(e.bytes.len()) {
                    for _ in 0..3 {
                        let junk = gen_junk(&mut jr, &alphabet);
                        check_one(c, &e, b, &junk, st)?;
                    }
                }
            }
        }
        Ok(ExecOk { nontrivial: e.layout.elems.len() >= 2 })
    }

    fn fingerprint(&self, c: &Case) -> u64 {
        let mut f = Fp::default();
        f.bytes(&enc::encode(&c.doc).bytes).u(c.jseed).u(c.allow as u64);
        if let Some((b, j)) = &c.at {
            f.u(*b as u64).bytes(j);
        }
        for e in &c.spec.elems {
            f.u(e.id).u(e.ty as u64);
        }
        f.0
    }

    fn to_j(&self, c: &Case) -> J {
        json!({
            "spec": c.spec.to_j(), "doc": enc::doc_to_j(&c.doc),
            "at": c.at.as_ref().map(|(b, j)| json!({"boundary": b, "junk": bytes_to_j(j)})),
            "jseed": c.jseed, "capacity": c.capacity, "rscript": c.rscript.to_j(), "allow": c.allow,
            "encoded": bytes_to_j(&enc::encode(&c.doc).bytes),
        })
    }

    fn from_j(&self, j: &J) -> Result<Case, String> {
        let at = match j.get("at") {
            Some(J::Null) | None => None,
            Some(a) => Some((a.get("boundary").and_then(|v| v.as_u64()).ok_or("at.boundary")? as usize, bytes_from_j(a.get("junk").ok_or("at.junk")?)?)),
        };
        Ok(Case {
            spec: SpecTable::from_j(j.get("spec").ok_or("spec")?)?,
            doc: enc::doc_from_j(j.get("doc").ok_or("doc")?)?,
            at,
            jseed: j.get("jseed").and_then(|v| v.as_u64()).unwrap_or(0),
            capacity: j.get("capacity").and_then(|c| c.as_u64()).map(|c| c as usize),
            rscript: RScript::from_j(j.get("rscript").ok_or("rscript")?)?,
            allow: j.get("allow").and_then(|v| v.as_u64()).unwrap_or(0) as u8,
        })
    }

    fn shrink(&self, c: &Case) -> Vec<Case> {
        let mut v = Vec::new();
        let e = enc::encode(&c.doc);
        match &c.at {
            None => {
                let mut jr = Rng::new(c.jseed);
                let alphabet = junk_alphabet(&c.spec);
                for b in e.layout.boundaries(e.bytes.len()) {
                    for _ in 0..3 {
                        let junk = gen_junk(&mut jr, &alphabet);
                        v.push(Case { at: Some((b, junk)), ..c.clone() });
                    }
                }
            }
            Some((b, junk)) => {
                if !c.rscript.is_whole() || c.capacity.is_some() {
                    v.push(Case { rscript: RScript::whole(), capacity: None, ..c.clone() });
                }
                if c.allow != 0 {
                    v.push(Case { allow: 0, ..c.clone() });
                }
                if junk.len() > 1 {
                    v.push(Case { at: Some((*b, junk[..1].to_vec())), ..c.clone() });
                    v.push(Case { at: Some((*b, junk[..junk.len() - 1].to_vec())), ..c.clone() });
                }
                // simpler documents, junk kept at the same distance from the end / from the start
                let from_end = e.bytes.len() - b;
                for d in cases::shrink_doc(&c.doc) {
                    let ne = enc::encode(&d);
                    if ne.bytes.len() >= from_end {
                        v.push(Case { doc: d.clone(), at: Some((ne.bytes.len() - from_end, junk.clone())), ..c.clone() });
                    }
                    v.push(Case { doc: d, at: Some((*b, junk.clone())), ..c.clone() });
                }
                if let Some(s) = cases::prune_spec(&c.spec, &c.doc, &[]) {
                    v.push(Case { spec: s, ..c.clone() });
                }
            }
        }
        v
    }

    fn rule(&self) -> &'static str {
        "One case = specification (no id begins with 0x08-0x0F) + valid known-size document for which EVERY tag boundary (including 0 and the end) receives 3 drawn junk runs of 1-12 bytes from the byte values that begin no id of the specification (always including 0x00 and the 5-byte-id markers 0x08..0x0F); driver: next() until an error, try_recover(), continue; half of the documents are read with hierarchy problems and/or oversized children tolerated (never invalid ids, under which junk could be read as raw tags). When, by the layout, the following tag shifted by the junk length still fits every enclosing known-size master: tags before unchanged, exactly one error, try_recover() Ok, all remaining tags identical with offsets shifted. Always: non-End offsets strictly increase, no panic, try_recover() fails only with UnexpectedEOF/ReadError. Non-trivial: document with at least two elements. 'evaluations' counts documents; insertions are in counters.junk_insertions."
    }
    fn assumptions(&self) -> Vec<&'static str> {
        vec!["junk bytes are drawn from byte values that are not the first byte of any id of the specification in force (0x00 has no length marker; 5-byte ids are kept out of the generated specifications so that long-id markers are always available)", "the precondition of the main clause is evaluated on the reference encoder's layout"]
    }
    fn expected_probes(&self) -> Vec<&'static str> {
        vec!["precondition_holds", "precondition_fails", "junk_at_end_of_input", "probe_recovery_inside_known_size_master"]
    }
}
