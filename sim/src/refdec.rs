//! Reference models over bytes, independent of the library's parser:
//!  * `walk`      — replays emitted items against the input (header/value decode at each position, tiling)
//!  * `ref_decode`— a strict recursive EBML walk with the closing rules of RFC 8794 as the
//!                  properties state them; used to interpret what a sink holds and as a third opinion.

use ebml_iterable::specs::PathPart;

use crate::enc::{dec_float_bits, dec_id, dec_int, dec_size, dec_uint};
use crate::spec::{SpecTable, Ty};
use crate::val::{TagV, Val};

/// The documented decoding of a payload for a specification type (None = not decodable).
pub fn decode_value(ty: Option<Ty>, payload: &[u8]) -> Option<Val> {
    Some(match ty {
        Some(Ty::UInt) => {
            if payload.len() > 8 {
                return None;
            }
            Val::U(dec_uint(payload))
        }
        Some(Ty::Int) => {
            if payload.len() > 8 {
                return None;
            }
            Val::I(dec_int(payload))
        }
        Some(Ty::Float) => Val::F(dec_float_bits(payload)?),
        Some(Ty::Utf8) => Val::S(String::from_utf8(payload.to_vec()).ok()?),
        Some(Ty::Bin) => Val::B(payload.to_vec()),
        Some(Ty::Master) => return None,
        None => Val::Raw(payload.to_vec()),
    })
}

#[derive(Clone, Debug)]
pub struct Walked {
    pub tag: TagV,
    /// position the item was decoded at (non-End) / start of the matching Start (End)
    pub off: usize,
    pub hdr_len: usize,
    /// declared size (None = unknown-size master; also None for End items)
    pub size: Option<u64>,
    /// index of the matching Start in the walked list, for End items that have one
    pub start_idx: Option<usize>,
}

#[derive(Debug)]
pub struct WalkError {
    /// index of the offending item in the flattened sequence
    pub item: usize,
    pub what: String,
}

/// Replays a flattened item sequence against `input`: each non-End item must be exactly the
/// element found at the cursor, and the cursor advances past a master's header or a leaf's
/// payload. Returns the positions; the cursor after the last item is the second result.
pub fn walk(spec: &SpecTable, input: &[u8], items: &[TagV], start_at: usize) -> Result<(Vec<Walked>, usize), WalkError> {
    let mut out: Vec<Walked> = Vec::with_capacity(items.len());
    let mut cur = start_at;
    let mut open: Vec<usize> = Vec::new();
    for (i, t) in items.iter().enumerate() {
        if t.is_end() {
            // innermost unmatched Start with this id, if any
            let m = open.last().copied().filter(|s| out[*s].tag.id == t.id);
            if m.is_some() {
                open.pop();
            }
            out.push(Walked { tag: t.clone(), off: m.map(|s| out[s].off).unwrap_or(0), hdr_len: 0, size: None, start_idx: m });
            continue;
        }
        let err = |what: String| WalkError { item: i, what };
        // a zero first byte has no length marker at all; the library's convention (id 0, one byte,
        // which strict mode then rejects as an invalid id) is accepted, the property does not define it
        let at = &input[cur.min(input.len())..];
        let (id, idl) = if at.first() == Some(&0) { (0, 1) } else { dec_id(at).ok_or_else(|| err(format!("no complete id at offset {}", cur)))? };
        if id != t.id {
            return Err(err(format!("item has id {:x} but the bytes at offset {} hold id {:x}", t.id, cur, id)));
        }
        let (size, sl) = dec_size(&input[cur + idl..]).ok_or_else(|| err(format!("no complete size field at offset {}", cur + idl)))?;
        let hdr = idl + sl;
        if t.is_start() {
            if spec.ty(id) != Some(Ty::Master) {
                return Err(err(format!("Start item for {:x}, which is not a master in the specification", id)));
            }
            out.push(Walked { tag: t.clone(), off: cur, hdr_len: hdr, size, start_idx: None });
            open.push(out.len() - 1);
            cur += hdr;
        } else {
            let size = size.ok_or_else(|| err(format!("non-master item {:x} at {} has the unknown-size marker", id, cur)))? as usize;
            let a = cur + hdr;
            if a.checked_add(size).map(|e| e > input.len()).unwrap_or(true) {
                return Err(err(format!("item {:x} at {} declares {} payload bytes but the input ends at {}", id, cur, size, input.len())));
            }
            let ty = spec.ty(id);
            if ty == Some(Ty::Master) {
                return Err(err(format!("master {:x} at {} emitted as a non-master item {:?}", id, cur, t.val)));
            }
            let want = decode_value(ty, &input[a..a + size]);
            match want {
                Some(w) if w == t.val => {}
                Some(w) => return Err(err(format!("item {:x} at {}: value {} but the payload decodes to {}", id, cur, TagV::new(id, t.val.clone()).short(), TagV::new(id, w).short()))),
                None => return Err(err(format!("item {:x} at {}: payload of {} bytes is not decodable for its type, yet a value was emitted", id, cur, size))),
            }
            out.push(Walked { tag: t.clone(), off: cur, hdr_len: hdr, size: Some(size as u64), start_idx: None });
            cur = a + size;
        }
    }
    Ok((out, cur))
}

/// Does element `e` end the unknown-size master `m` by itself (sibling, ancestor instance, root)?
pub fn ends_master(spec: &SpecTable, m: u64, e: u64) -> bool {
    let Some(ed) = spec.get(e) else { return false };
    let mp = spec.path(m);
    ed.path.is_empty() || ed.path == mp || mp.iter().any(|p| matches!(p, PathPart::Id(x) if *x == e))
}

#[derive(Debug, Clone, PartialEq, Eq)]
pub enum DecStop {
    /// input consumed, every master closed
    Clean,
    /// the bytes end inside an element
    Truncated(usize),
    Malformed(usize, String),
}

/// Strict reference decode: flattened tags and how the walk ended.
pub fn ref_decode(spec: &SpecTable, b: &[u8]) -> (Vec<TagV>, DecStop) {
    struct Open {
        id: u64,
        end: Option<usize>,
    }
    let mut out = Vec::new();
    let mut st: Vec<Open> = Vec::new();
    let mut pos = 0usize;
    loop {
        // known-size masters that are exhausted (and whatever is open inside them)
        while let Some(i) = st.iter().position(|m| m.end == Some(pos)) {
            while st.len() > i {
                out.push(TagV::new(st.pop().unwrap().id, Val::End));
            }
        }
        if let Some(m) = st.iter().find(|m| matches!(m.end, Some(e) if e < pos)) {
            return (out, DecStop::Malformed(pos, format!("content overruns master {:x}", m.id)));
        }
        if pos == b.len() {
            while let Some(m) = st.pop() {
                out.push(TagV::new(m.id, Val::End));
            }
            return (out, DecStop::Clean);
        }
        let Some((id, idl)) = dec_id(&b[pos..]) else {
            return (out, if b[pos] == 0 { DecStop::Malformed(pos, "zero id byte".into()) } else { DecStop::Truncated(pos) });
        };
        let Some((size, sl)) = dec_size(&b[pos + idl..]) else {
            return (out, if pos + idl < b.len() && b[pos + idl] == 0 { DecStop::Malformed(pos, "zero size byte".into()) } else { DecStop::Truncated(pos) });
        };
        let hdr_end = pos + idl + sl;
        // unknown-size closing: outermost master of the trailing unknown-size run that `id` ends
        let run_start = st.iter().rposition(|m| m.end.is_some()).map(|i| i + 1).unwrap_or(0);
        if let Some(i) = (run_start..st.len()).find(|i| ends_master(spec, st[*i].id, id)) {
            while st.len() > i {
                out.push(TagV::new(st.pop().unwrap().id, Val::End));
            }
        }
        let ty = spec.ty(id);
        if ty == Some(Ty::Master) {
            out.push(TagV::new(id, Val::Start));
            st.push(Open { id, end: size.map(|s| hdr_end + s as usize) });
            pos = hdr_end;
        } else {
            let Some(size) = size else { return (out, DecStop::Malformed(pos, "unknown size on a non-master".into())) };
            let end = hdr_end.saturating_add(size as usize);
            if end > b.len() {
                return (out, DecStop::Truncated(pos));
            }
            match decode_value(ty, &b[hdr_end..end]) {
                Some(v) => out.push(TagV::new(id, v)),
                None => return (out, DecStop::Malformed(pos, "payload not decodable".into())),
            }
            pos = end;
        }
    }
}

/// Where a read boundary at stream offset `b` falls relative to the parsed structure:
/// (phase, depth, kind of innermost open master) with phase 0 = on a tag boundary, 1 = inside an
/// id, 2 = inside a size field, 3 = inside a payload, 4 = beyond the successfully parsed region;
/// depth capped at 4; kind 0 = no master open, 1 = known-size, 2 = unknown-size.
pub fn phase_at(walked: &[Walked], b: usize) -> (u8, u8, u8) {
    let mut open: Vec<bool> = Vec::new(); // unknown-size?
    let mut result: Option<(u8, u8, u8)> = None;
    let mut parsed_end = 0usize;
    for w in walked {
        if w.tag.is_end() {
            open.pop();
            continue;
        }
        let idl = crate::enc::id_bytes(w.tag.id).len().min(w.hdr_len);
        let hdr_end = w.off + w.hdr_len;
        let end = if w.tag.is_start() { hdr_end } else { hdr_end + w.size.unwrap_or(0) as usize };
        let kind = match open.last() {
            None => 0,
            Some(false) => 1,
            Some(true) => 2,
        };
        let depth = open.len().min(4) as u8;
        if result.is_none() {
            if b == w.off {
                result = Some((0, depth, kind));
            } else if b > w.off && b < w.off + idl {
                result = Some((1, depth, kind));
            } else if b >= w.off + idl && b < hdr_end {
                result = Some((2, depth, kind));
            } else if b >= hdr_end && b < end {
                result = Some((3, depth, kind));
            }
        }
        if w.tag.is_start() {
            open.push(w.size.is_none());
        }
        parsed_end = parsed_end.max(end);
    }
    result.unwrap_or(if b == parsed_end { (0, 0, 0) } else { (4, 0, 0) })
}
