//! ebml-sim — deterministic simulation with fault injection for ebml-iterable.
//! Usage: ebml-sim <C01..C20> <quick|thorough> [--runs N]
//!        ebml-sim replay <file>
//!        ebml-sim selfcheck

// (helpers kept for replay files and debugging are not all used by every build)
#![allow(dead_code, unused_parens, unused_mut, unused_imports, unused_assignments)]

mod alloc;
mod cases;
mod checks;
mod enc;
mod gen;
mod harness;
mod io;
mod refdec;
mod rng;
mod runner;
mod spec;
mod val;
mod wcases;

use runner::{child_minimise, child_worker, replay_check, run_check, Tier};

#[global_allocator]
static GLOBAL: alloc::CountingAlloc = alloc::CountingAlloc;

/// Checks whose workers are child processes, so that a run that aborts the process (refused or failed
/// allocation, stack overflow) or hangs is reported as a violation with a replay file: all of them.
const ISOLATED: [&str; 17] = ["C01", "C02", "C03", "C04", "C05", "C06", "C07", "C08", "C09", "C10", "C11", "C12", "C13", "C14", "C17", "C19", "C20"];

macro_rules! dispatch {
    ($id:expr, $f:ident, $($arg:expr),*) => {
        match $id {
            "C01" => $f(&checks::c01::C01, $($arg),*),
            "C02" => $f(&checks::c02::C02, $($arg),*),
            "C03" => $f(&checks::c03::C03, $($arg),*),
            "C04" => $f(&checks::c04::C04, $($arg),*),
            "C06" => $f(&checks::c06::C06, $($arg),*),
            "C07" => $f(&checks::c07::C07, $($arg),*),
            "C08" => $f(&checks::c08::C08, $($arg),*),
            "C09" => $f(&checks::c09::C09, $($arg),*),
            "C10" => $f(&checks::c10::C10, $($arg),*),
            "C11" => $f(&checks::c11::C11, $($arg),*),
            "C12" => $f(&checks::c12::C12, $($arg),*),
            "C13" => $f(&checks::c13::C13, $($arg),*),
            "C14" => $f(&checks::c14::C14, $($arg),*),
            "C17" => $f(&checks::c17::C17, $($arg),*),
            "C19" => $f(&checks::c19::C19, $($arg),*),
            "C20" => $f(&checks::c20::C20, $($arg),*),
            "C05" => $f(&checks::c05::C05, $($arg),*),
            other => {
                eprintln!("harness error: unknown or unclaimed property {}", other);
                2
            }
        }
    };
}

fn main() {
    // the library's panics are caught and recorded per call; keep stderr quiet
    let default_hook = std::panic::take_hook();
    std::panic::set_hook(Box::new(move |info| {
        if !harness::QUIET.with(|q| q.get()) {
            default_hook(info);
        }
    }));
    let args: Vec<String> = std::env::args().collect();
    if args.len() < 2 {
        eprintln!("usage: ebml-sim <property> <quick|thorough> | replay <file> | selfcheck");
        std::process::exit(2);
    }
    if let Err(e) = spec::self_check() {
        eprintln!("harness error: self check failed: {}", e);
        std::process::exit(2);
    }
    let tier_of = |s: Option<&String>| match s.map(|s| s.as_str()) {
        Some("thorough") => Tier::Thorough,
        _ => Tier::Quick,
    };
    let load = |path: &str| -> serde_json::Value {
        let txt = match std::fs::read_to_string(path) {
            Ok(t) => t,
            Err(e) => {
                eprintln!("harness error: {}: {}", path, e);
                std::process::exit(2);
            }
        };
        match serde_json::from_str(&txt) {
            Ok(j) => j,
            Err(e) => {
                eprintln!("harness error: {}: {}", path, e);
                std::process::exit(2);
            }
        }
    };
    let code = match args[1].as_str() {
        "selfcheck" => {
            println!("selfcheck ok");
            0
        }
        // internal: child-process modes of isolated checks
        "--worker" => {
            let id = args[2].clone();
            let tier = tier_of(args.get(3));
            let (w, n, total): (u64, u64, u64) = (args[4].parse().unwrap(), args[5].parse().unwrap(), args[6].parse().unwrap());
            dispatch!(id.as_str(), child_worker, tier, w, n, total)
        }
        "--minimise" => {
            let id = args[2].clone();
            let tier = tier_of(args.get(3));
            let index: u64 = args[4].parse().unwrap();
            dispatch!(id.as_str(), child_minimise, tier, index)
        }
        "digest" => {
            let id = args[2].clone();
            let tier = tier_of(args.get(3));
            let (from, to): (u64, u64) = (args[4].parse().unwrap(), args[5].parse().unwrap());
            use runner::digest_runs;
            dispatch!(id.as_str(), digest_runs, tier, from, to)
        }
        "dump" => {
            let id = args[2].clone();
            let tier = tier_of(args.get(3));
            let index: u64 = args[4].parse().unwrap();
            use runner::dump_case;
            dispatch!(id.as_str(), dump_case, tier, index)
        }
        "--replay-worker" => {
            let path = args.get(2).cloned().unwrap_or_default();
            let j = load(&path);
            let id = j.get("property").and_then(|p| p.as_str()).unwrap_or("").to_string();
            dispatch!(id.as_str(), replay_check, &j, &path)
        }
        "replay" => {
            let path = args.get(2).cloned().unwrap_or_default();
            let j = load(&path);
            let id = j.get("property").and_then(|p| p.as_str()).unwrap_or("").to_string();
            if ISOLATED.contains(&id.as_str()) {
                runner::replay_isolated(&id, &path)
            } else {
                dispatch!(id.as_str(), replay_check, &j, &path)
            }
        }
        id => {
            let tier = tier_of(args.get(2));
            let runs: Option<u64> = args.iter().position(|a| a == "--runs").and_then(|i| args.get(i + 1)).and_then(|s| s.parse().ok());
            if ISOLATED.contains(&id) {
                use runner::run_check_mode;
                dispatch!(id, run_check_mode, tier, runs, true)
            } else {
                dispatch!(id, run_check, tier, runs)
            }
        }
    };
    std::process::exit(code);
}
