//! Specification seam.
//!
//! `EbmlSpecification` consists of associated functions only, so a specification is a *type*.
//! `DTag` is one type whose answers come from a thread-local table that the simulator installs
//! per run, which lets runs range over generated specifications. `StaticSpec` is produced by the
//! real `easy_ebml!` macro so that derive-generated code is in the loop too.
//!
//! Also here: `RefMatcher`, the executable reference for "is this tag allowed under this chain".

use std::cell::RefCell;

use ebml_iterable::specs::{easy_ebml, EbmlSpecification, EbmlTag, Master, PathPart, TagDataType};
use serde_json::{json, Value as J};

use crate::val::{TagV, Val};

pub const VOID_ID: u64 = 0xEC;
pub const CRC_ID: u64 = 0xBF;

#[derive(Clone, Copy, Debug, PartialEq, Eq, Hash, PartialOrd, Ord)]
pub enum Ty {
    Master,
    UInt,
    Int,
    Utf8,
    Bin,
    Float,
}

impl Ty {
    pub fn to_lib(self) -> TagDataType {
        match self {
            Ty::Master => TagDataType::Master,
            Ty::UInt => TagDataType::UnsignedInt,
            Ty::Int => TagDataType::Integer,
            Ty::Utf8 => TagDataType::Utf8,
            Ty::Bin => TagDataType::Binary,
            Ty::Float => TagDataType::Float,
        }
    }
    pub fn from_lib(t: TagDataType) -> Ty {
        match t {
            TagDataType::Master => Ty::Master,
            TagDataType::UnsignedInt => Ty::UInt,
            TagDataType::Integer => Ty::Int,
            TagDataType::Utf8 => Ty::Utf8,
            TagDataType::Binary => Ty::Bin,
            TagDataType::Float => Ty::Float,
        }
    }
    pub fn name(self) -> &'static str {
        match self {
            Ty::Master => "master",
            Ty::UInt => "uint",
            Ty::Int => "int",
            Ty::Utf8 => "utf8",
            Ty::Bin => "bin",
            Ty::Float => "float",
        }
    }
    pub fn from_name(s: &str) -> Option<Ty> {
        Some(match s {
            "master" => Ty::Master,
            "uint" => Ty::UInt,
            "int" => Ty::Int,
            "utf8" => Ty::Utf8,
            "bin" => Ty::Bin,
            "float" => Ty::Float,
            _ => return None,
        })
    }
}

#[derive(Clone, Debug, PartialEq, Eq)]
pub struct ElemDef {
    pub id: u64,
    pub ty: Ty,
    pub path: Vec<PathPart>,
}

impl ElemDef {
    pub fn has_global(&self) -> bool {
        self.path.iter().any(|p| matches!(p, PathPart::Global(_)))
    }
}

#[derive(Clone, Debug, PartialEq, Eq)]
pub enum SpecKind {
    /// answers come from `SpecTable.elems` through `DTag`
    Dyn,
    /// the `easy_ebml!`-generated `StaticSpec`; `elems` mirrors it (checked at start-up)
    Static,
    /// a second derive-generated specification with the shapes the first lacks: declared global elements and a
    /// global master (which may contain itself), placeholders behind ids and with bounds, 1- and 8-byte ids,
    /// several roots, a root that is not a master
    Static2,
}

#[derive(Clone, Debug, PartialEq, Eq)]
pub struct SpecTable {
    pub kind: SpecKind,
    pub elems: Vec<ElemDef>,
}

impl SpecTable {
    pub fn get(&self, id: u64) -> Option<&ElemDef> {
        self.elems.iter().find(|e| e.id == id)
    }
    pub fn ty(&self, id: u64) -> Option<Ty> {
        self.get(id).map(|e| e.ty)
    }
    pub fn path(&self, id: u64) -> &[PathPart] {
        self.get(id).map(|e| &e.path[..]).unwrap_or(&[])
    }
    pub fn masters(&self) -> Vec<u64> {
        self.elems.iter().filter(|e| e.ty == Ty::Master).map(|e| e.id).collect()
    }
    pub fn is_root(&self, id: u64) -> bool {
        self.get(id).map(|e| e.path.is_empty()).unwrap_or(false)
    }
    pub fn allowed(&self, id: u64, chain: &[u64]) -> bool {
        match self.get(id) {
            Some(e) => ref_match(&e.path, chain),
            None => false,
        }
    }
    pub fn max_depth(&self) -> usize {
        self.elems.iter().map(|e| e.path.len()).max().unwrap_or(0) + 1
    }

    pub fn to_j(&self) -> J {
        json!({
            "kind": match self.kind { SpecKind::Dyn => "dyn", SpecKind::Static => "static", SpecKind::Static2 => "static2" },
            "elems": self.elems.iter().map(|e| json!({
                "id": format!("{:x}", e.id),
                "ty": e.ty.name(),
                "path": e.path.iter().map(|p| match p {
                    PathPart::Id(i) => json!(format!("{:x}", i)),
                    PathPart::Global((a, b)) => json!({"min": a, "max": b}),
                }).collect::<Vec<_>>(),
            })).collect::<Vec<_>>(),
        })
    }

    pub fn from_j(j: &J) -> Result<SpecTable, String> {
        let kind = match j.get("kind").and_then(|k| k.as_str()) {
            Some("dyn") => SpecKind::Dyn,
            Some("static") => SpecKind::Static,
            Some("static2") => SpecKind::Static2,
            _ => return Err("spec.kind".into()),
        };
        let mut elems = Vec::new();
        for e in j.get("elems").and_then(|e| e.as_array()).ok_or("spec.elems")? {
            let id = u64::from_str_radix(e.get("id").and_then(|v| v.as_str()).ok_or("elem.id")?, 16).map_err(|e| e.to_string())?;
            let ty = Ty::from_name(e.get("ty").and_then(|v| v.as_str()).ok_or("elem.ty")?).ok_or("elem.ty name")?;
            let mut path = Vec::new();
            for p in e.get("path").and_then(|v| v.as_array()).ok_or("elem.path")? {
                match p {
                    J::String(s) => path.push(PathPart::Id(u64::from_str_radix(s, 16).map_err(|e| e.to_string())?)),
                    J::Object(o) => path.push(PathPart::Global((o.get("min").and_then(|v| v.as_u64()), o.get("max").and_then(|v| v.as_u64())))),
                    _ => return Err("path part".into()),
                }
            }
            elems.push(ElemDef { id, ty, path });
        }
        Ok(SpecTable { kind, elems })
    }
}

// ---------------------------------------------------------------------------------------------
// Reference matcher
// ---------------------------------------------------------------------------------------------

/// Declared path read as a pattern over the chain of open masters (outermost first):
/// `Id(x)` matches exactly x, `Global(min,max)` matches between min and max arbitrary masters
/// (absent min = 0, absent max = unbounded); the whole chain must be consumed.
pub fn ref_match(path: &[PathPart], chain: &[u64]) -> bool {
    // reachable[j] = the first i pattern parts can consume exactly j chain entries
    let n = chain.len();
    let mut reach = vec![false; n + 1];
    reach[0] = true;
    for part in path {
        let mut next = vec![false; n + 1];
        match part {
            PathPart::Id(x) => {
                for j in 0..n {
                    if reach[j] && chain[j] == *x {
                        next[j + 1] = true;
                    }
                }
            }
            PathPart::Global((min, max)) => {
                let min = min.unwrap_or(0) as usize;
                for j in 0..=n {
                    if reach[j] {
                        let hi = match max {
                            Some(m) => (j as u64).saturating_add(*m).min(n as u64) as usize,
                            None => n,
                        };
                        let mut k = j + min;
                        while k <= hi {
                            next[k] = true;
                            k += 1;
                        }
                    }
                }
            }
        }
        reach = next;
    }
    reach[n]
}

// ---------------------------------------------------------------------------------------------
// Dynamic specification
// ---------------------------------------------------------------------------------------------

/// The specification `DTag` currently implements on this thread. The path slices handed to the
/// library as `&'static [PathPart]` live in `paths`; see the SAFETY note in `lookup`.
struct Installed {
    /// (id, type, index into `paths`), sorted by id
    entries: Vec<(u64, TagDataType, usize)>,
    paths: Vec<Box<[PathPart]>>,
    /// what is installed, to skip re-installing the same table
    table: Vec<ElemDef>,
}

thread_local! {
    static CURRENT: RefCell<Installed> = RefCell::new(Installed { entries: Vec::new(), paths: Vec::new(), table: Vec::new() });
    static INSTALLS: std::cell::Cell<u64> = const { std::cell::Cell::new(0) };
}

/// Number of distinct installs on this thread (probe).
pub fn installs() -> u64 {
    INSTALLS.with(|i| i.get())
}

/// Makes `table` the specification that `DTag` implements on this thread.
///
/// Must not be called while an iterator or writer over `DTag` is alive on this thread (the
/// harness installs at the start of a run, before constructing them): the path slices of the
/// previously installed table are freed here.
pub fn install(table: &SpecTable) {
    CURRENT.with(|c| {
        let mut c = c.borrow_mut();
        if c.table == table.elems {
            return;
        }
        let paths: Vec<Box<[PathPart]>> = table.elems.iter().map(|e| e.path.clone().into_boxed_slice()).collect();
        let mut entries: Vec<(u64, TagDataType, usize)> = table.elems.iter().enumerate().map(|(i, e)| (e.id, e.ty.to_lib(), i)).collect();
        entries.sort_by_key(|e| e.0);
        *c = Installed { entries, paths, table: table.elems.clone() };
        INSTALLS.with(|i| i.set(i.get() + 1));
    });
}

fn lookup(id: u64) -> Option<(TagDataType, &'static [PathPart])> {
    CURRENT.with(|c| {
        let c = c.borrow();
        c.entries.binary_search_by_key(&id, |e| e.0).ok().map(|i| {
            let p: &[PathPart] = &c.paths[c.entries[i].2];
            // SAFETY: the trait demands `&'static`, but the library only uses a path during the call
            // that asked for it (it copies ids out of it, never stores the slice), and the boxed slice
            // stays at a stable address until the next `install()` on this thread, which by contract
            // happens only between runs, when no iterator or writer is alive. So the reference never
            // outlives the allocation in practice. This replaces an earlier leak-per-specification
            // scheme whose memory grew without bound over millions of runs.
            let p: &'static [PathPart] = unsafe { &*(p as *const [PathPart]) };
            (c.entries[i].1, p)
        })
    })
}

#[derive(Clone, Debug)]
pub enum DVal {
    U(u64),
    I(i64),
    F(f64),
    S(String),
    B(Vec<u8>),
    M(Master<DTag>),
    Raw(Vec<u8>),
}

#[derive(Clone, Debug)]
pub struct DTag {
    pub id: u64,
    pub v: DVal,
}

impl EbmlSpecification<DTag> for DTag {
    fn get_tag_data_type(id: u64) -> Option<TagDataType> {
        lookup(id).map(|e| e.0)
    }
    fn get_path_by_id(id: u64) -> &'static [PathPart] {
        lookup(id).map(|e| e.1).unwrap_or(&[])
    }
    fn get_unsigned_int_tag(id: u64, data: u64) -> Option<DTag> {
        matches!(lookup(id), Some((TagDataType::UnsignedInt, _))).then(|| DTag { id, v: DVal::U(data) })
    }
    fn get_signed_int_tag(id: u64, data: i64) -> Option<DTag> {
        matches!(lookup(id), Some((TagDataType::Integer, _))).then(|| DTag { id, v: DVal::I(data) })
    }
    fn get_utf8_tag(id: u64, data: String) -> Option<DTag> {
        matches!(lookup(id), Some((TagDataType::Utf8, _))).then(|| DTag { id, v: DVal::S(data) })
    }
    fn get_binary_tag(id: u64, data: &[u8]) -> Option<DTag> {
        matches!(lookup(id), Some((TagDataType::Binary, _))).then(|| DTag { id, v: DVal::B(data.to_vec()) })
    }
    fn get_float_tag(id: u64, data: f64) -> Option<DTag> {
        matches!(lookup(id), Some((TagDataType::Float, _))).then(|| DTag { id, v: DVal::F(data) })
    }
    fn get_master_tag(id: u64, data: Master<DTag>) -> Option<DTag> {
        matches!(lookup(id), Some((TagDataType::Master, _))).then(|| DTag { id, v: DVal::M(data) })
    }
    fn get_raw_tag(id: u64, data: &[u8]) -> DTag {
        DTag { id, v: DVal::Raw(data.to_vec()) }
    }
}

impl EbmlTag<DTag> for DTag {
    fn get_id(&self) -> u64 {
        self.id
    }
    fn as_unsigned_int(&self) -> Option<&u64> {
        if let DVal::U(v) = &self.v { Some(v) } else { None }
    }
    fn as_signed_int(&self) -> Option<&i64> {
        if let DVal::I(v) = &self.v { Some(v) } else { None }
    }
    fn as_utf8(&self) -> Option<&str> {
        if let DVal::S(v) = &self.v { Some(v) } else { None }
    }
    fn as_binary(&self) -> Option<&[u8]> {
        match &self.v {
            DVal::B(v) | DVal::Raw(v) => Some(v),
            _ => None,
        }
    }
    fn as_float(&self) -> Option<&f64> {
        if let DVal::F(v) = &self.v { Some(v) } else { None }
    }
    fn as_master(&self) -> Option<&Master<DTag>> {
        if let DVal::M(v) = &self.v { Some(v) } else { None }
    }
}

// ---------------------------------------------------------------------------------------------
// Static (derive-generated) specification
// ---------------------------------------------------------------------------------------------

easy_ebml! {
    #[derive(Clone, Debug, PartialEq)]
    pub enum StaticSpec {
        Ebml: Master = 0x1a45dfa3,
        Ebml/DocType: Utf8 = 0x4282,
        Ebml/Version: UnsignedInt = 0x4286,
        Segment: Master = 0x18538067,
        Segment/Info: Master = 0x1549a966,
        Segment/Info/Scale: UnsignedInt = 0x2ad7b1,
        Segment/Info/Duration: Float = 0x4489,
        Segment/Info/Title: Utf8 = 0x7ba9,
        Segment/Cluster: Master = 0x1f43b675,
        Segment/Cluster/Timestamp: UnsignedInt = 0xe7,
        Segment/Cluster/Group: Master = 0xa0,
        Segment/Cluster/Group/Block: Binary = 0xa1,
        Segment/Cluster/Group/Ref: Integer = 0xfb,
        Segment/Cluster/Simple: Binary = 0xa3,
        Segment/Tags: Master = 0x1254c367,
        Segment/Tags/Tag: Master = 0x7373,
        Segment/Tags/Tag/Name: Utf8 = 0x45a3,
        Segment/Tags/Tag/Level: Integer = 0x68ca,
    }
}

easy_ebml! {
    #[derive(Clone, Debug, PartialEq)]
    pub enum StaticSpec2 {
        Doc: Master = 0x81,
        Doc/(-)/Folder: Master = 0x4007,
        Doc/(-)/Folder/(0-1)/Tab: UnsignedInt = 0x4009,
        Doc/(0-1)/Shelf: Master = 0x400a,
        Doc/(0-1)/Shelf/(-)/Pin: UnsignedInt = 0x400b,
        Doc/Count: UnsignedInt = 0x82,
        Doc/Delta: Integer = 0x83,
        Doc/Ratio: Float = 0x84,
        Doc/Name: Utf8 = 0x4001,
        Doc/Body: Master = 0x4002,
        Doc/Body/Blob: Binary = 0x200003,
        Doc/Body/Part: Master = 0x10000004,
        Doc/Body/Part/Piece: Binary = 0x0800000005,
        Doc/Body/Part/Long: UnsignedInt = 0x0100000000000006,
        Doc/Body/Part/Wide: Master = 0x0102030405060708,
        Doc/Body/Part/Wide/In: UnsignedInt = 0x4010,
        Doc/Body/Part/Seven: Binary = 0x02030405060708,
        Doc/(1-2)/Note: Utf8 = 0x4008,
        Doc/Body/(0-1)/Mark: UnsignedInt = 0x89,
        (1-)/Stamp: Integer = 0x8a,
        Other: Master = 0x8b,
        Other/Item: Binary = 0x8c,
        Loose: UnsignedInt = 0x8d,
    }
}

pub fn static2_table() -> SpecTable {
    use PathPart::{Global, Id};
    let e = |id: u64, ty: Ty, path: Vec<PathPart>| ElemDef { id, ty, path };
    let (doc, body, part) = (0x81u64, 0x4002u64, 0x10000004u64);
    SpecTable {
        kind: SpecKind::Static2,
        elems: vec![
            e(doc, Ty::Master, vec![]),
            e(0x82, Ty::UInt, vec![Id(doc)]),
            e(0x83, Ty::Int, vec![Id(doc)]),
            e(0x84, Ty::Float, vec![Id(doc)]),
            e(0x4001, Ty::Utf8, vec![Id(doc)]),
            e(body, Ty::Master, vec![Id(doc)]),
            e(0x200003, Ty::Bin, vec![Id(doc), Id(body)]),
            e(part, Ty::Master, vec![Id(doc), Id(body)]),
            e(0x0800000005, Ty::Bin, vec![Id(doc), Id(body), Id(part)]),
            e(0x0100000000000006, Ty::UInt, vec![Id(doc), Id(body), Id(part)]),
            e(0x0102030405060708, Ty::Master, vec![Id(doc), Id(body), Id(part)]),
            e(0x4010, Ty::UInt, vec![Id(doc), Id(body), Id(part), Id(0x0102030405060708)]),
            e(0x02030405060708, Ty::Bin, vec![Id(doc), Id(body), Id(part)]),
            e(0x4007, Ty::Master, vec![Id(doc), Global((None, None))]),
            e(0x4009, Ty::UInt, vec![Id(doc), Global((None, None)), Id(0x4007), Global((Some(0), Some(1)))]),
            e(0x400a, Ty::Master, vec![Id(doc), Global((Some(0), Some(1)))]),
            e(0x400b, Ty::UInt, vec![Id(doc), Global((Some(0), Some(1))), Id(0x400a), Global((None, None))]),
            e(0x4008, Ty::Utf8, vec![Id(doc), Global((Some(1), Some(2)))]),
            e(0x89, Ty::UInt, vec![Id(doc), Id(body), Global((Some(0), Some(1)))]),
            e(0x8a, Ty::Int, vec![Global((Some(1), None))]),
            e(0x8b, Ty::Master, vec![]),
            e(0x8c, Ty::Bin, vec![Id(0x8b)]),
            e(0x8d, Ty::UInt, vec![]),
            e(CRC_ID, Ty::Bin, vec![Global((Some(1), None))]),
            e(VOID_ID, Ty::Bin, vec![Global((None, None))]),
        ],
    }
}

pub fn static_table() -> SpecTable {
    use PathPart::Id;
    let e = |id: u64, ty: Ty, path: Vec<PathPart>| ElemDef { id, ty, path };
    let (ebml, seg, info, clu, grp, tags, tag) = (0x1a45dfa3u64, 0x18538067u64, 0x1549a966u64, 0x1f43b675u64, 0xa0u64, 0x1254c367u64, 0x7373u64);
    SpecTable {
        kind: SpecKind::Static,
        elems: vec![
            e(ebml, Ty::Master, vec![]),
            e(0x4282, Ty::Utf8, vec![Id(ebml)]),
            e(0x4286, Ty::UInt, vec![Id(ebml)]),
            e(seg, Ty::Master, vec![]),
            e(info, Ty::Master, vec![Id(seg)]),
            e(0x2ad7b1, Ty::UInt, vec![Id(seg), Id(info)]),
            e(0x4489, Ty::Float, vec![Id(seg), Id(info)]),
            e(0x7ba9, Ty::Utf8, vec![Id(seg), Id(info)]),
            e(clu, Ty::Master, vec![Id(seg)]),
            e(0xe7, Ty::UInt, vec![Id(seg), Id(clu)]),
            e(grp, Ty::Master, vec![Id(seg), Id(clu)]),
            e(0xa1, Ty::Bin, vec![Id(seg), Id(clu), Id(grp)]),
            e(0xfb, Ty::Int, vec![Id(seg), Id(clu), Id(grp)]),
            e(0xa3, Ty::Bin, vec![Id(seg), Id(clu)]),
            e(tags, Ty::Master, vec![Id(seg)]),
            e(tag, Ty::Master, vec![Id(seg), Id(tags)]),
            e(0x45a3, Ty::Utf8, vec![Id(seg), Id(tags), Id(tag)]),
            e(0x68ca, Ty::Int, vec![Id(seg), Id(tags), Id(tag)]),
            e(CRC_ID, Ty::Bin, vec![PathPart::Global((Some(1), None))]),
            e(VOID_ID, Ty::Bin, vec![PathPart::Global((None, None))]),
        ],
    }
}

/// Start-up self check: the mirror table equals what the macro generated, and a specification
/// installed in `DTag` answers consistently.
pub fn self_check() -> Result<(), String> {
    // The mirror tables state what was DECLARED to the derive macro; the checks judge the library against them. If the
    // macro generates something else, that is for the checks to find (as violations of their properties), not a reason
    // to stop: it is only reported here.
    let t = static_table();
    let mut diffs: Vec<String> = Vec::new();
    for e in &t.elems {
        if StaticSpec::get_tag_data_type(e.id) != Some(e.ty.to_lib()) || StaticSpec::get_path_by_id(e.id) != &e.path[..] {
            diffs.push(format!("StaticSpec {:x}", e.id));
        }
    }
    for e in &static2_table().elems {
        if StaticSpec2::get_tag_data_type(e.id) != Some(e.ty.to_lib()) || StaticSpec2::get_path_by_id(e.id) != &e.path[..] {
            diffs.push(format!("StaticSpec2 {:x}: generated path {:?}, declared {:?}", e.id, StaticSpec2::get_path_by_id(e.id), e.path));
        }
    }
    for probe in [0x80u64, 0x4000, 0x1a45dfa4] {
        if StaticSpec::get_tag_data_type(probe).is_some() {
            diffs.push(format!("StaticSpec knows undeclared id {:x}", probe));
        }
    }
    for probe in [0x80u64, 0x8e, 0x4000, 0x400c] {
        if StaticSpec2::get_tag_data_type(probe).is_some() {
            diffs.push(format!("StaticSpec2 knows undeclared id {:x}", probe));
        }
    }
    if !diffs.is_empty() && std::env::var("VERIF_QUIET_SPEC").is_err() {
        eprintln!("note: the derive-generated specifications differ from their declarations ({}); the checks judge against the declarations", diffs.join("; "));
    }
    let mut d = t.clone();
    d.kind = SpecKind::Dyn;
    install(&d);
    for e in &t.elems {
        if DTag::get_tag_data_type(e.id) != Some(e.ty.to_lib()) || DTag::get_path_by_id(e.id) != &e.path[..] {
            return Err(format!("dyn spec: {:x}", e.id));
        }
        let made = [
            DTag::get_unsigned_int_tag(e.id, 1).is_some(),
            DTag::get_signed_int_tag(e.id, 1).is_some(),
            DTag::get_utf8_tag(e.id, String::new()).is_some(),
            DTag::get_binary_tag(e.id, &[]).is_some(),
            DTag::get_float_tag(e.id, 1.0).is_some(),
            DTag::get_master_tag(e.id, Master::Start).is_some(),
        ];
        let want = [e.ty == Ty::UInt, e.ty == Ty::Int, e.ty == Ty::Utf8, e.ty == Ty::Bin, e.ty == Ty::Float, e.ty == Ty::Master];
        if made != want {
            return Err(format!("dyn spec constructors inconsistent for {:x}", e.id));
        }
    }
    // matcher sanity
    let g = |a, b| PathPart::Global((a, b));
    let cases: Vec<(Vec<PathPart>, Vec<u64>, bool)> = vec![
        (vec![], vec![], true),
        (vec![], vec![1], false),
        (vec![PathPart::Id(1)], vec![1], true),
        (vec![PathPart::Id(1)], vec![2], false),
        (vec![PathPart::Id(1)], vec![1, 2], false),
        (vec![g(None, None)], vec![], true),
        (vec![g(None, None)], vec![1, 2, 3], true),
        (vec![g(Some(1), None)], vec![], false),
        (vec![g(Some(1), None)], vec![9], true),
        (vec![g(None, Some(1))], vec![9, 9], false),
        (vec![PathPart::Id(1), g(None, Some(2)), PathPart::Id(5)], vec![1, 5], true),
        (vec![PathPart::Id(1), g(None, Some(2)), PathPart::Id(5)], vec![1, 7, 8, 5], true),
        (vec![PathPart::Id(1), g(None, Some(2)), PathPart::Id(5)], vec![1, 7, 8, 9, 5], false),
        (vec![PathPart::Id(1), g(Some(1), Some(2)), PathPart::Id(5)], vec![1, 5], false),
        (vec![PathPart::Id(1), g(Some(1), Some(2)), PathPart::Id(5)], vec![1, 5, 5], true),
    ];
    for (p, c, want) in cases {
        if ref_match(&p, &c) != want {
            return Err(format!("ref_match({:?},{:?}) != {}", p, c, want));
        }
    }
    Ok(())
}

// ---------------------------------------------------------------------------------------------
// Conversions between the neutral TagV and a specification type
// ---------------------------------------------------------------------------------------------

pub trait Spec: EbmlSpecification<Self> + EbmlTag<Self> + Clone + 'static {}
impl<T: EbmlSpecification<T> + EbmlTag<T> + Clone + 'static> Spec for T {}

pub fn to_tagv<T: Spec>(t: &T) -> TagV {
    let id = t.get_id();
    let val = match T::get_tag_data_type(id) {
        Some(TagDataType::Master) => match t.as_master().expect("the specification's accessor for the type it declares for this id returned None (master)") {
            Master::Start => Val::Start,
            Master::End => Val::End,
            Master::Full(cs) => Val::Full(cs.iter().map(to_tagv::<T>).collect()),
        },
        Some(TagDataType::UnsignedInt) => Val::U(*t.as_unsigned_int().expect("the specification's accessor for the type it declares for this id returned None (uint)")),
        Some(TagDataType::Integer) => Val::I(*t.as_signed_int().expect("the specification's accessor for the type it declares for this id returned None (int)")),
        Some(TagDataType::Float) => Val::F(t.as_float().expect("the specification's accessor for the type it declares for this id returned None (float)").to_bits()),
        Some(TagDataType::Utf8) => Val::S(t.as_utf8().expect("the specification's accessor for the type it declares for this id returned None (utf8)").to_string()),
        Some(TagDataType::Binary) => Val::B(t.as_binary().expect("the specification's accessor for the type it declares for this id returned None (binary)").to_vec()),
        None => Val::Raw(t.as_binary().expect("the specification's accessor for the type it declares for this id returned None (raw)").to_vec()),
    };
    TagV { id, val }
}

/// Builds a specification tag. The value variant must agree with the specification's type for
/// the id (the harness guarantees it); `Raw` is for ids outside the specification.
pub fn from_tagv<T: Spec>(t: &TagV) -> T {
    let id = t.id;
    let r = match &t.val {
        Val::U(v) => T::get_unsigned_int_tag(id, *v),
        Val::I(v) => T::get_signed_int_tag(id, *v),
        Val::F(v) => T::get_float_tag(id, f64::from_bits(*v)),
        Val::S(v) => T::get_utf8_tag(id, v.clone()),
        Val::B(v) => T::get_binary_tag(id, v),
        Val::Start => T::get_master_tag(id, Master::Start),
        Val::End => T::get_master_tag(id, Master::End),
        Val::Full(cs) => T::get_master_tag(id, Master::Full(cs.iter().map(from_tagv::<T>).collect())),
        Val::Raw(v) => Some(T::get_raw_tag(id, v)),
    };
    r.unwrap_or_else(|| panic!("harness: tag {:x} does not fit the specification: {:?}", id, t.val))
}
