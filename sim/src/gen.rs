//! Workload generators: specifications, document trees, payload classes, byte faults.

use ebml_iterable::specs::PathPart;

use crate::enc::{self, Body, Node};
use crate::rng::Rng;
use crate::spec::{ElemDef, SpecKind, SpecTable, Ty, CRC_ID, VOID_ID};
use crate::val::Val;

// ---------------------------------------------------------------------------------------------
// Specifications
// ---------------------------------------------------------------------------------------------

#[derive(Clone, Debug)]
pub struct SpecOpts {
    /// allow `Global` placeholders on generated elements (besides the built-in Void/Crc32)
    pub globals: bool,
    /// allow children of global-pathed masters (→ placeholders in intermediate position)
    pub intermediate_globals: bool,
    /// allow masters with a global path
    pub global_masters: bool,
    pub max_elems: usize,
    pub max_depth: usize,
    /// probability (percent) of using the derive-generated static specification instead
    pub static_pct: u64,
    /// keep first bytes 0x0A–0x0F (8-byte-id markers… none) free: junk bytes for recovery tests
    pub reserve_junk: bool,
    /// one table in eight is given further unusual but legal shapes (see the end of `gen_spec`); off unless a check asks
    pub shapes: bool,
}

impl Default for SpecOpts {
    fn default() -> Self {
        SpecOpts { globals: true, intermediate_globals: true, global_masters: true, max_elems: 24, max_depth: 5, static_pct: 10, reserve_junk: false, shapes: false }
    }
}

/// A well-formed id of `len` bytes: marker bit in place, value bits neither all zero nor all one.
pub fn gen_id(rng: &mut Rng, len: usize) -> u64 {
    let bits = 7 * len as u32;
    let maxv = if bits >= 64 { u64::MAX } else { (1u64 << bits) - 1 };
    loop {
        let v = match rng.below(4) {
            0 => 1 + rng.below(16),
            1 => maxv - 1 - rng.below(16.min(maxv - 1)),
            _ => 1 + rng.below(maxv - 1),
        };
        if v == 0 || v >= maxv {
            continue;
        }
        return v | (1u64 << bits);
    }
}

/// Marker bit exactly where the byte length puts it, value bits neither all zero nor all one.
pub fn well_formed_id(id: u64) -> bool {
    if id == 0 || id >> 57 != 0 {
        return false;
    }
    let l = enc::id_bytes(id).len() as u32;
    let v = id & ((1u64 << (7 * l)) - 1);
    id >> (7 * l) == 1 && v != 0 && v != (1u64 << (7 * l)) - 1
}

pub fn gen_spec(rng: &mut Rng, o: &SpecOpts) -> SpecTable {
    if rng.below(100) < o.static_pct {
        // (the second one has ids with first bytes 0x08 and 0x01: not where junk bytes need those free)
        return if o.reserve_junk || rng.chance(1, 2) { crate::spec::static_table() } else { crate::spec::static2_table() };
    }
    let mut elems: Vec<ElemDef> = Vec::new();
    let mut used: Vec<u64> = vec![VOID_ID, CRC_ID];
    let lens_pool: &[usize] = match rng.below(4) {
        0 => &[1],
        1 => &[1, 2, 4],
        2 => &[1, 2, 3, 4, 5, 6, 7, 8],
        _ => &[1, 1, 2, 2, 3, 4, 8],
    };
    // one table in four also draws ids that are *related* to ids already in use: the same value bits under
    // another length marker, the same trailing bytes, or a neighbour (id comparisons on part of an id,
    // truncating casts and prefix confusions need such pairs)
    let related = rng.chance(1, 4);
    let mut fresh_id = |rng: &mut Rng, used: &mut Vec<u64>| -> u64 {
        loop {
            let l = *rng.pick(lens_pool);
            let mut id = gen_id(rng, l);
            if related && used.len() > 2 && rng.chance(1, 2) {
                let base = used[2 + rng.below(used.len() as u64 - 2) as usize];
                let bl = enc::id_bytes(base).len() as u32;
                let val = base & ((1u64 << (7 * bl)) - 1);
                let l = l as u32;
                let cand = match rng.below(4) {
                    // same value bits under another length marker
                    0 => (val & ((1u64 << (7 * l)) - 1)) | (1u64 << (7 * l)),
                    // same low byte, fresh high part
                    1 => (id & !0xff) | (base & 0xff),
                    // neighbours
                    2 => base ^ 1,
                    _ => base.wrapping_add(1),
                };
                if well_formed_id(cand) {
                    id = cand;
                }
            }
            // for recovery tests: keep first bytes 0x08..=0x0F unused (5-byte ids)
            if o.reserve_junk && enc::id_bytes(id)[0] >> 3 == 1 {
                continue;
            }
            if !used.contains(&id) {
                used.push(id);
                return id;
            }
        }
    };
    let leaf_tys = [Ty::UInt, Ty::Int, Ty::Utf8, Ty::Bin, Ty::Float];
    // one table in twelve is a deep, narrow one (declared paths of up to twice the usual depth)
    let max_depth = if rng.chance(1, 12) { 2 * o.max_depth } else { o.max_depth };
    let n_roots = if rng.chance(1, 10) { rng.range(4, 8) } else { rng.range(1, 3) };
    let budget = rng.range(3, o.max_elems.max(3));
    // (index into elems, depth) of masters that may still receive children
    let mut open: Vec<(usize, usize)> = Vec::new();
    for _ in 0..n_roots {
        let id = fresh_id(rng, &mut used);
        elems.push(ElemDef { id, ty: Ty::Master, path: vec![] });
        open.push((elems.len() - 1, 0));
    }
    if rng.chance(1, 10) {
        // a root-level leaf
        let id = fresh_id(rng, &mut used);
        elems.push(ElemDef { id, ty: *rng.pick(&leaf_tys), path: vec![] });
    }
    while elems.len() < budget && !open.is_empty() {
        let k = rng.below(open.len() as u64) as usize;
        let (pi, depth) = open[k];
        let parent = elems[pi].clone();
        let mut path = parent.path.clone();
        path.push(PathPart::Id(parent.id));
        let parent_has_global = parent.has_global();
        let id = fresh_id(rng, &mut used);
        let make_master = depth + 1 < max_depth && rng.chance(2, 5);
        let mut ty = if make_master { Ty::Master } else { *rng.pick(&leaf_tys) };
        // optionally a trailing placeholder
        // a placeholder after the parent: also when the parent's own path already has one (several
        // placeholders in one path, never adjacent, as the derive macro allows) if intermediate ones are on
        let can_global = o.globals && (!parent_has_global || o.intermediate_globals) && rng.chance(1, 6);
        if can_global {
            let min = if rng.chance(1, 2) { None } else { Some(rng.below(3)) };
            let max = if rng.chance(1, 2) { None } else { Some(min.unwrap_or(0) + 1 + rng.below(3)) };
            // often the very bounds of a placeholder the table already has (Crc32's and Void's included):
            // paths that end alike but begin differently must not be taken for one another
            let mut existing: Vec<(Option<u64>, Option<u64>)> = vec![(Some(1), None), (None, None)];
            for e in elems.iter() {
                for pp in &e.path {
                    if let PathPart::Global(b) = pp {
                        existing.push(*b);
                    }
                }
            }
            let (min, max) = if rng.chance(2, 5) { *rng.pick(&existing) } else { (min, max) };
            path.push(PathPart::Global((min, max)));
            if ty == Ty::Master && !o.global_masters {
                ty = *rng.pick(&leaf_tys);
            }
        }
        let is_master = ty == Ty::Master;
        let has_global = path.iter().any(|p| matches!(p, PathPart::Global(_)));
        elems.push(ElemDef { id, ty, path });
        if is_master && (!has_global || o.intermediate_globals) {
            open.push((elems.len() - 1, depth + 1));
        }
        if rng.chance(1, 8) {
            open.swap_remove(k);
        }
    }
    if o.shapes && rng.chance(1, 8) {
        // Unusual but legal shapes that the tree-shaped construction above never yields (appended, so that the table up to
        // here is the one every other run of this seed gets):
        // (1) a master whose whole declared path is one placeholder - it may sit below any chain its bounds allow, under
        //     different roots, inside itself, and (lower bound 0) at the root level - with a child or two;
        let b = *rng.pick(&[(None, None), (Some(0), None), (Some(1), None), (Some(0), Some(2)), (Some(1), Some(3))]);
        let gm = fresh_id(rng, &mut used);
        elems.push(ElemDef { id: gm, ty: Ty::Master, path: vec![PathPart::Global(b)] });
        for _ in 0..rng.range(1, 2) {
            let id = fresh_id(rng, &mut used);
            elems.push(ElemDef { id, ty: *rng.pick(&leaf_tys), path: vec![PathPart::Global(b), PathPart::Id(gm)] });
        }
        // (2) an element whose place depends on an ancestor *above* such a master: anywhere below one particular root;
        let roots: Vec<u64> = elems.iter().filter(|e| e.path.is_empty() && e.ty == Ty::Master).map(|e| e.id).collect();
        if !roots.is_empty() {
            let r = *rng.pick(&roots);
            let id = fresh_id(rng, &mut used);
            elems.push(ElemDef { id, ty: *rng.pick(&leaf_tys), path: vec![PathPart::Id(r), PathPart::Global((Some(1), None))] });
        }
        // (3) a child that constrains the ancestors more tightly than its parent's own path does: the parent may sit at
        //     several depths (`Doc/(0-)/Node`), the child only in a Node directly below Doc (`Doc/Node/Flag`) or at most one
        //     level further down (`Doc/(0-1)/Node/Flag`).
        let nodes: Vec<ElemDef> = elems.iter().filter(|e| e.ty == Ty::Master && e.path.len() >= 2 && matches!(e.path.last(), Some(PathPart::Global(_)))).cloned().collect();
        if !nodes.is_empty() {
            let m = rng.pick(&nodes).clone();
            let mut path = m.path[..m.path.len() - 1].to_vec();
            if rng.chance(1, 2) {
                path.push(PathPart::Global((Some(0), Some(1))));
            }
            path.push(PathPart::Id(m.id));
            let id = fresh_id(rng, &mut used);
            elems.push(ElemDef { id, ty: *rng.pick(&leaf_tys), path });
        }
    }
    elems.push(ElemDef { id: CRC_ID, ty: Ty::Bin, path: vec![PathPart::Global((Some(1), None))] });
    elems.push(ElemDef { id: VOID_ID, ty: Ty::Bin, path: vec![PathPart::Global((None, None))] });
    SpecTable { kind: SpecKind::Dyn, elems }
}

// ---------------------------------------------------------------------------------------------
// Payloads
// ---------------------------------------------------------------------------------------------

#[derive(Clone, Debug)]
pub struct PayOpts {
    /// largest binary/string payload class allowed (bytes)
    pub max_len: usize,
    /// percent of leaves that get a boundary-class length instead of a short one
    pub boundary_pct: u64,
}

impl Default for PayOpts {
    fn default() -> Self {
        PayOpts { max_len: 300, boundary_pct: 15 }
    }
}

// size-field boundaries (2^(7k)-1 ± 1), the default buffer length minus a header (65533..65537) and
// powers of two above it (buffer growth), 2^21 ± 1
const LEN_CLASSES: [usize; 30] = [0, 1, 2, 126, 127, 128, 129, 255, 256, 16382, 16383, 16384, 16385, 65530, 65533, 65534, 65535, 65536, 65537, 131071, 131072, 131073, 262144, 1048575, 1048576, 1048577, 2097150, 2097151, 2097152, 2097153];

pub fn gen_len(rng: &mut Rng, p: &PayOpts) -> usize {
    if rng.below(100) < p.boundary_pct {
        let ok: Vec<usize> = LEN_CLASSES.iter().copied().filter(|l| *l <= p.max_len).collect();
        *rng.pick(&ok)
    } else {
        match rng.below(4) {
            0 => 0,
            1 => rng.range(1, 4),
            _ => rng.range(0, 24.min(p.max_len)),
        }
    }
}

pub fn gen_u64(rng: &mut Rng) -> u64 {
    match rng.below(6) {
        0 => rng.below(3),
        1 => {
            let k = 8 * rng.range(1, 8) as u32;
            let base = if k >= 64 { u64::MAX } else { 1u64 << k };
            base.wrapping_add(rng.below(3)).wrapping_sub(1)
        }
        2 => u64::MAX - rng.below(2),
        3 => rng.below(256),
        _ => rng.next() >> rng.below(64),
    }
}

pub fn gen_i64(rng: &mut Rng) -> i64 {
    match rng.below(7) {
        0 => rng.below(3) as i64 - 1,
        1 => {
            let k = 8 * rng.range(1, 8) as u32 - 1;
            let base: i64 = if k >= 63 { i64::MAX } else { 1i64 << k };
            let d = rng.below(3) as i64 - 1;
            let v = base.wrapping_add(d);
            if rng.chance(1, 2) { v } else { v.wrapping_neg() }
        }
        2 => i64::MIN + rng.below(2) as i64,
        3 => i64::MAX - rng.below(2) as i64,
        4 => rng.below(256) as i64 - 128,
        _ => (rng.next() as i64) >> rng.below(64),
    }
}

pub fn gen_f64_bits(rng: &mut Rng) -> u64 {
    match rng.below(8) {
        0 => 0,
        1 => 0x8000_0000_0000_0000,
        2 => f64::INFINITY.to_bits() | (rng.below(2) << 63),
        3 => 0x7FF8_0000_0000_0000 | rng.below(1 << 20) | (rng.below(2) << 63), // quiet NaN with payload
        4 => rng.below(1 << 20) | (rng.below(2) << 63),                      // subnormal
        5 => gen_f32_exact_bits(rng),
        _ => rng.next(),
    }
}

/// An f64 bit pattern that is exactly representable as f32 (so a 4-byte encoding is lossless).
pub fn gen_f32_exact_bits(rng: &mut Rng) -> u64 {
    let f = match rng.below(5) {
        0 => 0.0f32,
        1 => -0.0f32,
        2 => f32::INFINITY,
        3 => (rng.below(2000) as f32 - 1000.0) / 8.0,
        _ => {
            let b = rng.next() as u32;
            let f = f32::from_bits(b);
            if f.is_nan() { 1.5 } else { f }
        }
    };
    (f as f64).to_bits()
}

pub fn gen_string(rng: &mut Rng, len: usize) -> String {
    // multi-byte characters at a low rate; total byte length == len exactly
    let mut s = String::with_capacity(len);
    while s.len() < len {
        let left = len - s.len();
        let c = match rng.below(12) {
            0 if left >= 2 => 'é',
            1 if left >= 3 => '€',
            2 if left >= 4 => '😀',
            3 => '\u{0}',
            _ => (b'a' + rng.below(26) as u8) as char,
        };
        s.push(c);
    }
    s
}

pub fn gen_bytes(rng: &mut Rng, len: usize) -> Vec<u8> {
    if len > 4096 {
        // large payloads: cheap but position-dependent content
        let seed = rng.next();
        (0..len).map(|i| (seed.wrapping_add(i as u64).wrapping_mul(0x9E3779B97F4A7C15) >> 56) as u8).collect()
    } else {
        match rng.below(4) {
            0 => vec![0u8; len],
            1 => vec![0xFFu8; len],
            _ => rng.bytes(len),
        }
    }
}

pub fn gen_leaf_val(rng: &mut Rng, ty: Ty, p: &PayOpts) -> Val {
    match ty {
        Ty::UInt => Val::U(gen_u64(rng)),
        Ty::Int => Val::I(gen_i64(rng)),
        Ty::Float => Val::F(if rng.chance(1, 8) { (((rng.below(2000) as f64) - 1000.0) / 8.0).to_bits() } else { gen_f64_bits(rng) }),
        Ty::Utf8 => {
            let l = gen_len(rng, p);
            Val::S(gen_string(rng, l))
        }
        Ty::Bin => {
            let l = gen_len(rng, p);
            Val::B(gen_bytes(rng, l))
        }
        Ty::Master => unreachable!(),
    }
}

// ---------------------------------------------------------------------------------------------
// Documents
// ---------------------------------------------------------------------------------------------

#[derive(Clone, Debug)]
pub struct DocOpts {
    pub max_nodes: usize,
    pub max_depth: usize,
    pub pay: PayOpts,
    /// percent of masters encoded with unknown size
    pub unknown_pct: u64,
    /// percent of elements given an explicit size width
    pub width_pct: u64,
    /// non-canonical payload lengths (padded ints, f32) — things the writer never produces
    pub noncanonical_pct: u64,
    /// raw (not in specification) elements with well-formed ids, percent per slot
    pub raw_pct: u64,
    /// several root elements in sequence
    pub max_roots: usize,
    /// global elements (Void/Crc32/placeholder paths) may be placed
    pub globals: bool,
}

impl Default for DocOpts {
    fn default() -> Self {
        DocOpts { max_nodes: 40, max_depth: 6, pay: PayOpts::default(), unknown_pct: 0, width_pct: 0, noncanonical_pct: 0, raw_pct: 0, max_roots: 3, globals: true }
    }
}

struct DocGen<'a> {
    spec: &'a SpecTable,
    o: &'a DocOpts,
    left: usize,
    /// unknown-size flags of the masters in `chain` (parallel to it)
    unk: Vec<bool>,
}

impl<'a> DocGen<'a> {
    /// Elements of the specification allowed directly under `chain`.
    fn candidates(&self, chain: &[u64]) -> Vec<&'a ElemDef> {
        self.spec.elems.iter().filter(|e| (self.o.globals || !e.has_global()) && self.spec.allowed(e.id, chain)).collect()
    }

    fn gen_children(&mut self, rng: &mut Rng, chain: &mut Vec<u64>, depth: usize, parent_unknown: bool) -> Vec<Node> {
        let _ = parent_unknown;
        let cands = self.candidates(chain);
        let mut out: Vec<Node> = Vec::new();
        if cands.is_empty() {
            return out;
        }
        let want = match rng.below(6) {
            0 => 0,
            1 => 1,
            _ => rng.range(1, 6),
        };
        for _ in 0..want {
            if self.left == 0 {
                break;
            }
            // Where a document would be ambiguous (the properties exclude it):
            //  - after an unknown-size master N only something that ends N can follow. For a placeholder-free
            //    N that is any placeholder-free sibling; a global-pathed element would be read as a child of N.
            //    An unknown-size master whose own path has a placeholder stays the last child (whether an
            //    element with the same global path is its sibling or "a global element, which never closes
            //    it" is where the property texts pull in two directions).
            //  - no child that by itself ends a master of the trailing run of unknown-size masters it is
            //    written into (possible only through placeholders).
            let prev = out.last().filter(|n: &&Node| n.is_master() && ends_open(n)).map(|n| n.id);
            if let Some(pid) = prev {
                if self.spec.get(pid).map_or(false, |d| d.has_global()) {
                    break;
                }
            }
            let run_start = self.unk.iter().rposition(|u| !*u).map_or(0, |i| i + 1);
            let pool: Vec<&&ElemDef> = cands
                .iter()
                .filter(|e| !(prev.is_some() && e.has_global()))
                .filter(|e| !(run_start..chain.len()).any(|i| crate::refdec::ends_master(self.spec, chain[i], e.id)))
                .collect();
            if pool.is_empty() {
                break;
            }
            let e = **rng.pick(&pool);
            self.left -= 1;
            let node = if e.ty == Ty::Master {
                let mut n = Node::master(e.id, vec![]);
                // (masters whose own path has a placeholder get unknown size half as often)
                if rng.below(100) < self.o.unknown_pct && (!e.has_global() || rng.chance(1, 2)) {
                    n.enc.unknown = true;
                    if rng.chance(1, 3) {
                        n.enc.size_w = rng.range(1, 8) as u8;
                    }
                }
                if depth + 1 < self.o.max_depth {
                    chain.push(e.id);
                    self.unk.push(n.enc.unknown);
                    let cs = self.gen_children(rng, chain, depth + 1, n.enc.unknown);
                    self.unk.pop();
                    chain.pop();
                    n.body = Body::Master(cs);
                }
                n
            } else {
                let mut n = Node::leaf(e.id, gen_leaf_val(rng, e.ty, &self.o.pay));
                if rng.below(100) < self.o.noncanonical_pct {
                    match &n.body {
                        Body::Leaf(Val::U(v)) => n.enc.pay_len = Some(rng.range(enc::tight_uint_len(*v), 8) as u8),
                        Body::Leaf(Val::I(v)) => n.enc.pay_len = Some(rng.range(enc::tight_int_len(*v), 8) as u8),
                        Body::Leaf(Val::F(_)) => {
                            n.body = Body::Leaf(Val::F(gen_f32_exact_bits(rng)));
                            n.enc.pay_len = Some(4);
                        }
                        _ => {}
                    }
                }
                n
            };
            out.push(node);
            if self.o.raw_pct > 0 && rng.below(100) < self.o.raw_pct && !out.last().map(|n| n.is_master() && ends_open(n)).unwrap_or(false) {
                // a raw element: id well-formed and not in the specification
                let id = loop {
                    let l = rng.range(1, 4);
                    let id = gen_id(rng, l);
                    if self.spec.get(id).is_none() {
                        break id;
                    }
                };
                let l = gen_len(rng, &self.o.pay);
                out.push(Node::leaf(id, Val::Raw(gen_bytes(rng, l))));
            }
        }
        out
    }
}

/// Does the encoding of this master end with an "open" (unknown-size) tail, i.e. is its end
/// only implied by what follows?
pub fn ends_open(n: &Node) -> bool {
    if !n.is_master() {
        return false;
    }
    if n.enc.unknown {
        return true;
    }
    false
}

pub fn gen_doc(rng: &mut Rng, spec: &SpecTable, o: &DocOpts) -> Vec<Node> {
    let mut g = DocGen { spec, o, left: rng.range(1, o.max_nodes.max(1)), unk: Vec::new() };
    let roots: Vec<&ElemDef> = spec.elems.iter().filter(|e| e.path.is_empty()).collect();
    // masters whose whole path is a placeholder with lower bound 0 may also stand at the root level (only tables with the
    // unusual shapes have any): never first - the document starts at a root element - and not directly after an unknown-size
    // master, which would take them in as a child
    let global_roots: Vec<&ElemDef> = spec.elems.iter().filter(|e| e.ty == Ty::Master && !e.path.is_empty() && spec.allowed(e.id, &[])).collect();
    let mut doc: Vec<Node> = Vec::new();
    let n_roots = rng.range(1, o.max_roots.max(1));
    for _ in 0..n_roots {
        if g.left == 0 {
            break;
        }
        let e = if !global_roots.is_empty() && !doc.is_empty() && !doc.last().map_or(false, ends_open) && rng.chance(1, 3) { *rng.pick(&global_roots) } else { *rng.pick(&roots) };
        g.left -= 1;
        if e.ty == Ty::Master {
            let mut n = Node::master(e.id, vec![]);
            if rng.below(100) < o.unknown_pct {
                n.enc.unknown = true;
                if rng.chance(1, 3) {
                    n.enc.size_w = rng.range(1, 8) as u8;
                }
            }
            let mut chain = vec![e.id];
            g.unk = vec![n.enc.unknown];
            n.body = Body::Master(g.gen_children(rng, &mut chain, 1, n.enc.unknown));
            doc.push(n);
        } else {
            doc.push(Node::leaf(e.id, gen_leaf_val(rng, e.ty, &o.pay)));
        }
    }
    if o.width_pct > 0 {
        for n in doc.iter_mut() {
            n.visit_mut(&mut |x| {
                if rng.below(100) < o.width_pct && !(x.is_master() && x.enc.unknown) {
                    x.enc.size_w = rng.range(1, 8) as u8;
                }
            });
        }
        // drop explicit widths that cannot hold the size
        loop {
            let mut changed = false;
            for n in doc.iter_mut() {
                if !enc::encodable(n) {
                    n.visit_mut(&mut |x| {
                        if x.enc.size_w != 0 && !x.enc.unknown && !enc::encodable(&Node { id: x.id, body: x.body.clone(), enc: x.enc.clone() }) {
                            x.enc.size_w = 0;
                        }
                    });
                    if !enc::encodable(n) {
                        // widths interact through sizes: fall back to clearing them all in this tree
                        n.visit_mut(&mut |x| {
                            if !x.enc.unknown {
                                x.enc.size_w = 0;
                            }
                        });
                    }
                    changed = true;
                }
            }
            if !changed {
                break;
            }
        }
    }
    doc
}

/// Keeps only the set of unknown-size flags; everything else known-size/minimal.
pub fn strip_unknown(doc: &mut [Node]) {
    for n in doc {
        n.visit_mut(&mut |x| {
            if x.enc.unknown {
                x.enc.unknown = false;
                x.enc.size_w = 0;
            }
        });
    }
}

// ---------------------------------------------------------------------------------------------
// Byte faults
// ---------------------------------------------------------------------------------------------

#[derive(Clone, Debug, Default)]
pub struct FaultStats {
    pub flips: u64,
    pub overwrites: u64,
    pub inserts: u64,
    pub deletes: u64,
    pub truncations: u64,
}

/// Applies 1–`max_faults` random byte-level faults.
pub fn byte_faults(rng: &mut Rng, bytes: &mut Vec<u8>, max_faults: usize, st: &mut FaultStats) {
    let n = rng.range(1, max_faults.max(1));
    for _ in 0..n {
        if bytes.is_empty() {
            bytes.push(rng.next() as u8);
            st.inserts += 1;
            continue;
        }
        let pos = rng.below(bytes.len() as u64) as usize;
        match rng.below(6) {
            0 => {
                bytes[pos] ^= 1 << rng.below(8);
                st.flips += 1;
            }
            1 => {
                bytes[pos] = *rng.pick(&[0x00u8, 0xFF, 0x80, 0x7F, 0x01, 0x81, 0x40, 0x10, 0x08]);
                st.overwrites += 1;
            }
            2 => {
                bytes[pos] = rng.next() as u8;
                st.overwrites += 1;
            }
            3 => {
                let k = rng.range(1, 4);
                for _ in 0..k {
                    bytes.insert(pos, rng.next() as u8);
                }
                st.inserts += 1;
            }
            4 => {
                let k = rng.range(1, 4).min(bytes.len() - pos);
                bytes.drain(pos..pos + k);
                st.deletes += 1;
            }
            _ => {
                bytes.truncate(pos);
                st.truncations += 1;
            }
        }
    }
}

/// Header soup: plausible headers of specification ids with adversarial sizes.
pub fn header_soup(rng: &mut Rng, spec: &SpecTable, n: usize) -> Vec<u8> {
    let mut out = Vec::new();
    for _ in 0..n {
        let e = rng.pick(&spec.elems);
        out.extend_from_slice(&enc::id_bytes(e.id));
        let w = rng.range(1, 8);
        match rng.below(8) {
            0 => out.extend_from_slice(&enc::size_vint(0, w)),
            1 => out.extend_from_slice(&enc::unknown_size(w)),
            2 => out.extend_from_slice(&enc::size_vint(rng.below(10), w)),
            3 => out.extend_from_slice(&enc::size_vint(((1u64 << (7 * w)) - 2).min(rng.next() >> (64 - 7 * w as u32)), w)),
            4 => out.push(0),
            _ => {
                let k = rng.below(6);
                out.extend_from_slice(&enc::size_vint(k, w));
                out.extend_from_slice(&rng.bytes(k as usize));
            }
        }
    }
    out
}

/// Pads one known-size master (at any depth) with a Void child so that its content length lands on a
/// size-field boundary (126..128, 16382..16384), if Void is allowed there.
pub fn pad_to_boundary(rng: &mut Rng, spec: &SpecTable, doc: &mut Vec<crate::enc::Node>) {
    use crate::enc::{encode, encodable};
    fn master_paths(s: &[Node], p: &mut Vec<usize>, out: &mut Vec<Vec<usize>>) {
        for (i, n) in s.iter().enumerate() {
            p.push(i);
            if n.is_master() && !n.enc.unknown {
                out.push(p.clone());
            }
            master_paths(n.children(), p, out);
            p.pop();
        }
    }
    fn at<'a>(s: &'a mut [Node], p: &[usize]) -> &'a mut Node {
        let n = &mut s[p[0]];
        if p.len() == 1 {
            n
        } else {
            match &mut n.body {
                Body::Master(cs) => at(cs, &p[1..]),
                _ => unreachable!(),
            }
        }
    }
    let mut paths = Vec::new();
    master_paths(doc, &mut Vec::new(), &mut paths);
    if paths.is_empty() {
        return;
    }
    let path = rng.pick(&paths).clone();
    let mut chain: Vec<u64> = Vec::new();
    for d in 1..=path.len() {
        chain.push(at(doc, &path[..d]).id);
    }
    if !spec.allowed(crate::spec::VOID_ID, &chain) {
        return;
    }
    let n = at(doc, &path);
    let cur = encode(std::slice::from_ref(n)).layout.elems[0].size.unwrap_or(0) as usize;
    let target = *rng.pick(&[126usize, 127, 127, 128, 16382, 16383, 16383, 16384]);
    // a Void element of payload p costs 1 (id) + size width + p
    if target < cur + 2 {
        return;
    }
    let room = target - cur;
    let p = if room - 2 < 127 {
        room - 2
    } else if room >= 3 {
        room - 3
    } else {
        return;
    };
    let v = Node::leaf(crate::spec::VOID_ID, Val::B(vec![0; p]));
    if let Body::Master(cs) = &mut n.body {
        // not directly after an unknown-size child (ambiguous by the properties' own exclusion)
        if cs.last().map(|c| c.is_master() && c.enc.unknown).unwrap_or(false) {
            return;
        }
        cs.push(v);
    }
    // explicit widths on the way up may no longer hold the sizes
    let root = &mut doc[path[0]];
    if !encodable(root) {
        root.visit_mut(&mut |x| {
            if !x.enc.unknown {
                x.enc.size_w = 0;
            }
        });
    }
}

/// A document that nests one master inside further instances of itself `depth` times (needs a
/// master whose declared path lets it be its own ancestor, i.e. a placeholder path). Returns the
/// document and the id of the recursive master.
pub fn gen_deep_doc(rng: &mut Rng, spec: &SpecTable, depth: usize) -> Option<(Vec<Node>, u64)> {
    // find (chain, master) such that the master is allowed under chain and under chain + itself
    let masters: Vec<&ElemDef> = spec.elems.iter().filter(|e| e.ty == Ty::Master).collect();
    let mut found: Option<(Vec<u64>, u64)> = None;
    'search: for _ in 0..20 {
        let mut chain: Vec<u64> = Vec::new();
        for _ in 0..4 {
            for m in &masters {
                if spec.allowed(m.id, &chain) {
                    let mut c2 = chain.clone();
                    c2.push(m.id);
                    if spec.allowed(m.id, &c2) {
                        let mut c3 = c2.clone();
                        c3.push(m.id);
                        if spec.allowed(m.id, &c3) {
                            found = Some((chain.clone(), m.id));
                            break 'search;
                        }
                    }
                }
            }
            let cands: Vec<&&ElemDef> = masters.iter().filter(|m| spec.allowed(m.id, &chain)).collect();
            if cands.is_empty() {
                break;
            }
            chain.push(rng.pick(&cands).id);
        }
    }
    let (chain, g) = found?;
    // the placeholder may be bounded: find how deep it really goes
    let mut full: Vec<u64> = chain.clone();
    let mut reach = 0;
    while reach < depth && spec.allowed(g, &full) {
        full.push(g);
        reach += 1;
    }
    if reach < 3 {
        return None;
    }
    let leaf: Option<Node> = spec.elems.iter().find(|e| e.ty != Ty::Master && spec.allowed(e.id, &full)).map(|e| Node::leaf(e.id, gen_leaf_val(rng, e.ty, &PayOpts { max_len: 8, boundary_pct: 0 })));
    let mut node: Option<Node> = leaf;
    for id in full.iter().rev() {
        let mut m = Node::master(*id, node.into_iter().collect());
        if rng.chance(1, 40) && !spec.get(*id).map(|e| e.has_global()).unwrap_or(true) {
            m.enc.unknown = true;
        }
        node = Some(m);
    }
    Some((vec![node?], g))
}
