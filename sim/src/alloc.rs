//! Allocator seam: a counting wrapper around the system allocator with per-thread accounting
//! that can be armed around one run. While armed, a single request above `HARD_CAP` is refused
//! (returns null), which makes the process abort — C17 therefore runs in child processes and the
//! parent turns an abort into a violation for the run announced last.

use std::alloc::{GlobalAlloc, Layout, System};
use std::cell::Cell;

pub const HARD_CAP: usize = 1 << 30;

thread_local! {
    /// accounting is on: set only while a library call runs (see `enter`/`exit`)
    static ARMED: Cell<bool> = const { Cell::new(false) };
    /// a measurement is in progress on this thread
    static MEASURE: Cell<bool> = const { Cell::new(false) };
    static CUR: Cell<i64> = const { Cell::new(0) };
    static PEAK: Cell<i64> = const { Cell::new(0) };
    static MAXREQ: Cell<usize> = const { Cell::new(0) };
    static ALLOCS: Cell<u64> = const { Cell::new(0) };
}

pub struct CountingAlloc;

#[inline]
fn on_alloc(size: usize) {
    // `try_with`: during thread teardown the cells may be gone
    let _ = ARMED.try_with(|a| {
        if a.get() {
            let _ = CUR.try_with(|c| {
                let v = c.get() + size as i64;
                c.set(v);
                let _ = PEAK.try_with(|p| {
                    if v > p.get() {
                        p.set(v);
                    }
                });
            });
            let _ = MAXREQ.try_with(|m| {
                if size > m.get() {
                    m.set(size);
                }
            });
            let _ = ALLOCS.try_with(|n| n.set(n.get() + 1));
        }
    });
}

#[inline]
fn on_dealloc(size: usize) {
    let _ = ARMED.try_with(|a| {
        if a.get() {
            let _ = CUR.try_with(|c| c.set(c.get() - size as i64));
        }
    });
}

#[inline]
fn refuse(size: usize) -> bool {
    size > HARD_CAP && ARMED.try_with(|a| a.get()).unwrap_or(false)
}

unsafe impl GlobalAlloc for CountingAlloc {
    unsafe fn alloc(&self, layout: Layout) -> *mut u8 {
        if refuse(layout.size()) {
            return std::ptr::null_mut();
        }
        let p = System.alloc(layout);
        if !p.is_null() {
            on_alloc(layout.size());
        }
        p
    }
    unsafe fn alloc_zeroed(&self, layout: Layout) -> *mut u8 {
        if refuse(layout.size()) {
            return std::ptr::null_mut();
        }
        let p = System.alloc_zeroed(layout);
        if !p.is_null() {
            on_alloc(layout.size());
        }
        p
    }
    unsafe fn dealloc(&self, ptr: *mut u8, layout: Layout) {
        on_dealloc(layout.size());
        System.dealloc(ptr, layout)
    }
    unsafe fn realloc(&self, ptr: *mut u8, layout: Layout, new_size: usize) -> *mut u8 {
        if new_size > layout.size() && refuse(new_size) {
            return std::ptr::null_mut();
        }
        let p = System.realloc(ptr, layout, new_size);
        if !p.is_null() {
            on_dealloc(layout.size());
            on_alloc(new_size);
        }
        p
    }
}

#[derive(Clone, Copy, Debug, Default)]
pub struct Usage {
    /// peak net heap growth of this thread while armed
    pub peak: usize,
    /// largest single request while armed
    pub max_request: usize,
    pub allocations: u64,
}

/// Starts a measurement on this thread: from now on, allocations made while a library call is
/// running (between `enter` and `exit`) are accounted, relative to this instant.
pub fn arm() {
    CUR.with(|c| c.set(0));
    PEAK.with(|c| c.set(0));
    MAXREQ.with(|c| c.set(0));
    ALLOCS.with(|c| c.set(0));
    MEASURE.with(|a| a.set(true));
}

/// Called by the harness right before / after each call into the library under test.
pub fn enter() {
    if MEASURE.with(|m| m.get()) {
        ARMED.with(|a| a.set(true));
    }
}

pub fn exit() {
    ARMED.with(|a| a.set(false));
}

pub fn disarm() -> Usage {
    ARMED.with(|a| a.set(false));
    MEASURE.with(|a| a.set(false));
    Usage { peak: PEAK.with(|p| p.get()).max(0) as usize, max_request: MAXREQ.with(|m| m.get()), allocations: ALLOCS.with(|n| n.get()) }
}
