//! Allocator seam: a counting wrapper around the system allocator with per-thread accounting
//! that can be armed around one run. While armed, a single request above `HARD_CAP` is refused
//! (returns null), which makes the process abort — C17 therefore runs in child processes and the
//! parent turns an abort into a violation for the run announced last.

use std::alloc::{GlobalAlloc, Layout, System};
use std::cell::Cell;

pub const HARD_CAP: usize = 1 << 30;

thread_local! {
    /// accounting is on: set only while a library call runs (see `enter`/`exit`)
    static ARMED: Cell<bool> = const { Cell::new(false) };
    /// a measurement is in progress on this thread
    static MEASURE: Cell<bool> = const { Cell::new(false) };
    static CUR: Cell<i64> = const { Cell::new(0) };
    static PEAK: Cell<i64> = const { Cell::new(0) };
    static MAXREQ: Cell<usize> = const { Cell::new(0) };
    static ALLOCS: Cell<u64> = const { Cell::new(0) };
}

pub struct CountingAlloc;

/// Blocks allocated while a library call was running, so that freeing them later — inside or
/// outside a library call (items handed to the harness are dropped outside) — is credited, and
/// freeing harness memory is not. Open addressing, linear probing, tombstones; no allocation.
const SLOTS: usize = 1 << 12;
const EMPTY: usize = 0;
const TOMB: usize = 1;

struct Table {
    slots: std::cell::UnsafeCell<[(usize, usize); SLOTS]>,
}

thread_local! {
    static TABLE: Table = const { Table { slots: std::cell::UnsafeCell::new([(EMPTY, 0); SLOTS]) } };
    static LIVE: Cell<usize> = const { Cell::new(0) };
}

#[inline]
fn slot_of(p: usize) -> usize {
    (p >> 4).wrapping_mul(0x9E3779B97F4A7C15) >> (64 - 12)
}

fn table_insert(p: usize, size: usize) -> bool {
    TABLE
        .try_with(|t| {
            // SAFETY: thread-local, and the allocator hooks never re-enter while this reference is alive
            let slots = unsafe { &mut *t.slots.get() };
            if LIVE.with(|l| l.get()) >= SLOTS / 2 {
                return false;
            }
            let mut i = slot_of(p);
            loop {
                if slots[i].0 == EMPTY || slots[i].0 == TOMB {
                    slots[i] = (p, size);
                    LIVE.with(|l| l.set(l.get() + 1));
                    return true;
                }
                i = (i + 1) & (SLOTS - 1);
            }
        })
        .unwrap_or(false)
}

fn table_remove(p: usize) -> Option<usize> {
    TABLE
        .try_with(|t| {
            let slots = unsafe { &mut *t.slots.get() };
            let mut i = slot_of(p);
            let mut probes = 0;
            loop {
                if slots[i].0 == EMPTY || probes >= SLOTS {
                    return None;
                }
                if slots[i].0 == p {
                    let s = slots[i].1;
                    slots[i] = (TOMB, 0);
                    LIVE.with(|l| l.set(l.get() - 1));
                    return Some(s);
                }
                i = (i + 1) & (SLOTS - 1);
                probes += 1;
            }
        })
        .unwrap_or(None)
}

fn table_clear() {
    let _ = TABLE.try_with(|t| {
        let slots = unsafe { &mut *t.slots.get() };
        for s in slots.iter_mut() {
            *s = (EMPTY, 0);
        }
    });
    LIVE.with(|l| l.set(0));
}

#[inline]
fn on_alloc(p: *mut u8, size: usize) {
    // `try_with`: during thread teardown the cells may be gone
    let _ = ARMED.try_with(|a| {
        if a.get() {
            // a block the table cannot hold is counted as growth that is never credited back
            // (over-estimates; the table is sized so that this does not happen in practice)
            let _ = table_insert(p as usize, size);
            let _ = CUR.try_with(|c| {
                let v = c.get() + size as i64;
                c.set(v);
                let _ = PEAK.try_with(|p| {
                    if v > p.get() {
                        p.set(v);
                    }
                });
            });
            let _ = MAXREQ.try_with(|m| {
                if size > m.get() {
                    m.set(size);
                }
            });
            let _ = ALLOCS.try_with(|n| n.set(n.get() + 1));
        }
    });
}

#[inline]
fn on_dealloc(p: *mut u8) {
    let _ = MEASURE.try_with(|m| {
        if m.get() {
            if let Some(size) = table_remove(p as usize) {
                let _ = CUR.try_with(|c| c.set(c.get() - size as i64));
            }
        }
    });
}

#[inline]
fn refuse(size: usize) -> bool {
    size > HARD_CAP && ARMED.try_with(|a| a.get()).unwrap_or(false)
}

unsafe impl GlobalAlloc for CountingAlloc {
    unsafe fn alloc(&self, layout: Layout) -> *mut u8 {
        if refuse(layout.size()) {
            return std::ptr::null_mut();
        }
        let p = System.alloc(layout);
        if !p.is_null() {
            on_alloc(p, layout.size());
        }
        p
    }
    unsafe fn alloc_zeroed(&self, layout: Layout) -> *mut u8 {
        if refuse(layout.size()) {
            return std::ptr::null_mut();
        }
        let p = System.alloc_zeroed(layout);
        if !p.is_null() {
            on_alloc(p, layout.size());
        }
        p
    }
    unsafe fn dealloc(&self, ptr: *mut u8, layout: Layout) {
        on_dealloc(ptr);
        System.dealloc(ptr, layout)
    }
    unsafe fn realloc(&self, ptr: *mut u8, layout: Layout, new_size: usize) -> *mut u8 {
        if new_size > layout.size() && refuse(new_size) {
            return std::ptr::null_mut();
        }
        let p = System.realloc(ptr, layout, new_size);
        if !p.is_null() {
            on_dealloc(ptr);
            on_alloc(p, new_size);
        }
        p
    }
}

#[derive(Clone, Copy, Debug, Default)]
pub struct Usage {
    /// peak net heap growth of this thread while armed
    pub peak: usize,
    /// largest single request while armed
    pub max_request: usize,
    pub allocations: u64,
}

/// Starts a measurement on this thread: from now on, allocations made while a library call is
/// running (between `enter` and `exit`) are accounted, relative to this instant.
pub fn arm() {
    table_clear();
    CUR.with(|c| c.set(0));
    PEAK.with(|c| c.set(0));
    MAXREQ.with(|c| c.set(0));
    ALLOCS.with(|c| c.set(0));
    MEASURE.with(|a| a.set(true));
}

/// Called by the harness right before / after each call into the library under test.
pub fn enter() {
    if MEASURE.with(|m| m.get()) {
        ARMED.with(|a| a.set(true));
    }
}

pub fn exit() {
    ARMED.with(|a| a.set(false));
}

pub fn disarm() -> Usage {
    ARMED.with(|a| a.set(false));
    MEASURE.with(|a| a.set(false));
    Usage { peak: PEAK.with(|p| p.get()).max(0) as usize, max_request: MAXREQ.with(|m| m.get()), allocations: ALLOCS.with(|n| n.get()) }
}
