//! Batch runner: seeded search over runs, sharded over threads by run index; evidence, replay
//! files, minimisation, known-finding classification, watchdog.

use std::collections::BTreeMap;
use std::panic::{catch_unwind, AssertUnwindSafe};
use std::path::PathBuf;
use std::sync::atomic::{AtomicU64, Ordering};
use std::sync::{Arc, Mutex};
use std::time::{Duration, Instant};

use serde_json::{json, Value as J};

use crate::rng::mix;

#[derive(Clone, Copy, Debug, PartialEq, Eq)]
pub enum Tier {
    Quick,
    Thorough,
}

impl Tier {
    pub fn name(self) -> &'static str {
        match self {
            Tier::Quick => "quick",
            Tier::Thorough => "thorough",
        }
    }
}

pub const DEFAULT_SEED: u64 = 20260926;
/// runs that share one generated specification (bounds the number of leaked path slices)
pub const SPEC_BLOCK: u64 = 32;
pub const WATCHDOG_SECS: u64 = 30;

#[derive(Clone, Debug)]
pub struct Fail {
    pub clause: String,
    pub detail: String,
}

impl Fail {
    pub fn new(clause: &str, detail: String) -> Fail {
        Fail { clause: clause.to_string(), detail }
    }
}

#[macro_export]
macro_rules! fail {
    ($clause:expr, $($arg:tt)*) => {
        return Err($crate::runner::Fail::new($clause, format!($($arg)*)))
    };
}

#[derive(Clone, Debug, Default)]
pub struct Stats {
    pub c: BTreeMap<&'static str, u64>,
    /// fingerprints of schedule / state classes reached (distinct count goes into the evidence)
    pub classes: Vec<u64>,
}

impl Stats {
    pub fn add(&mut self, k: &'static str, n: u64) {
        *self.c.entry(k).or_insert(0) += n;
    }
    pub fn inc(&mut self, k: &'static str) {
        self.add(k, 1);
    }
    pub fn max(&mut self, k: &'static str, n: u64) {
        let e = self.c.entry(k).or_insert(0);
        if n > *e {
            *e = n;
        }
    }
    /// Records that this run reached the schedule/state class with fingerprint `fp`.
    pub fn class(&mut self, fp: u64) {
        self.classes.push(fp);
    }
    pub fn merge(&mut self, o: &Stats) {
        self.classes.extend_from_slice(&o.classes);
        for (k, v) in &o.c {
            if k.starts_with("max_") {
                self.max(k, *v);
            } else {
                self.add(k, *v);
            }
        }
    }
}

/// FNV-1a, for case fingerprints (distinctness counting).
#[derive(Clone)]
pub struct Fp(pub u64);

impl Default for Fp {
    fn default() -> Self {
        Fp(0xcbf29ce484222325)
    }
}

impl Fp {
    pub fn bytes(&mut self, b: &[u8]) -> &mut Self {
        for x in b {
            self.0 ^= *x as u64;
            self.0 = self.0.wrapping_mul(0x100000001b3);
        }
        self.u(b.len() as u64)
    }
    pub fn u(&mut self, v: u64) -> &mut Self {
        for x in v.to_le_bytes() {
            self.0 ^= x as u64;
            self.0 = self.0.wrapping_mul(0x100000001b3);
        }
        self
    }
    pub fn s(&mut self, s: &str) -> &mut Self {
        self.bytes(s.as_bytes())
    }
}

pub struct ExecOk {
    /// is this case non-trivial by the check's stated rule?
    pub nontrivial: bool,
}

pub trait Check: Sync {
    type Case: Clone + Send + Sync;
    fn id(&self) -> &'static str;
    fn num(&self) -> u64;
    fn level(&self) -> &'static str;
    fn runs(&self, tier: Tier) -> u64;
    /// `seed` decides everything of the run except the specification, which comes from `spec_seed`
    /// (shared by a block of runs).
    fn gen(&self, seed: u64, spec_seed: u64, tier: Tier) -> Self::Case;
    fn exec(&self, c: &Self::Case, st: &mut Stats) -> Result<ExecOk, Fail>;
    fn fingerprint(&self, c: &Self::Case) -> u64;
    fn to_j(&self, c: &Self::Case) -> J;
    fn from_j(&self, j: &J) -> Result<Self::Case, String>;
    /// Simpler variants of a failing case, most aggressive first.
    fn shrink(&self, c: &Self::Case) -> Vec<Self::Case>;
    fn rule(&self) -> &'static str;
    fn assumptions(&self) -> Vec<&'static str>;
    /// Narrow class name of a failure, if it belongs to one that `known_findings.json` may list.
    fn classify(&self, _c: &Self::Case, _f: &Fail) -> Option<String> {
        None
    }
    /// Probes that should be non-zero in a thorough run (reported as warnings when zero).
    fn expected_probes(&self) -> Vec<&'static str> {
        vec![]
    }
}

pub fn root_dir() -> PathBuf {
    std::env::var("VERIF_ROOT").map(PathBuf::from).unwrap_or_else(|_| std::env::current_dir().expect("cwd"))
}

pub fn base_seed() -> u64 {
    std::env::var("VERIF_SEED").ok().and_then(|s| s.trim().parse::<u64>().ok()).unwrap_or(DEFAULT_SEED)
}

pub fn threads() -> usize {
    std::env::var("VERIF_THREADS").ok().and_then(|s| s.parse().ok()).unwrap_or(16).max(1)
}

#[derive(Clone, Debug)]
pub struct Known {
    pub property: String,
    pub status: String,
    pub class: String,
    pub what: String,
}

pub fn load_known() -> Result<Vec<Known>, String> {
    let p = root_dir().join("known_findings.json");
    let txt = match std::fs::read_to_string(&p) {
        Ok(t) => t,
        Err(_) => return Ok(vec![]),
    };
    let j: J = serde_json::from_str(&txt).map_err(|e| format!("known_findings.json: {}", e))?;
    let mut v = Vec::new();
    for e in j.get("findings").and_then(|f| f.as_array()).ok_or("known_findings.json: findings[]")? {
        v.push(Known {
            property: e.get("property").and_then(|x| x.as_str()).unwrap_or("").to_string(),
            status: e.get("status").and_then(|x| x.as_str()).unwrap_or("").to_string(),
            class: e.get("class").and_then(|x| x.as_str()).unwrap_or("").to_string(),
            what: e.get("what").and_then(|x| x.as_str()).unwrap_or("").to_string(),
        });
    }
    Ok(v)
}

fn run_seed(base: u64, num: u64, i: u64) -> (u64, u64) {
    (mix(base, num, i), mix(base ^ 0x5bec, num, i / SPEC_BLOCK))
}

/// Executes with panic capture: a panic inside the oracle/harness itself is a harness error.
fn exec_guarded<K: Check>(k: &K, c: &K::Case, st: &mut Stats) -> Result<Result<ExecOk, Fail>, String> {
    match catch_unwind(AssertUnwindSafe(|| k.exec(c, st))) {
        Ok(r) => Ok(r),
        Err(p) => {
            let m = if let Some(s) = p.downcast_ref::<&str>() {
                s.to_string()
            } else if let Some(s) = p.downcast_ref::<String>() {
                s.clone()
            } else {
                "<panic>".into()
            };
            Err(m)
        }
    }
}

fn minimise<K: Check>(k: &K, mut case: K::Case, fail: Fail, budget: usize) -> (K::Case, Fail, usize) {
    let mut fail = fail;
    let mut used = 0usize;
    let mut st = Stats::default();
    'outer: loop {
        for cand in k.shrink(&case) {
            if used >= budget {
                break 'outer;
            }
            used += 1;
            if let Ok(Err(f)) = exec_guarded(k, &cand, &mut st) {
                if f.clause == fail.clause {
                    case = cand;
                    fail = f;
                    continue 'outer;
                }
            }
        }
        break;
    }
    (case, fail, used)
}

fn write_replay<K: Check>(k: &K, seed: u64, index: u64, case: &K::Case, fail: &Fail, original: Option<&K::Case>) -> Result<PathBuf, String> {
    let dir = root_dir().join("replays");
    std::fs::create_dir_all(&dir).map_err(|e| e.to_string())?;
    let path = dir.join(format!("{}-{}-{}.json", k.id(), seed, index));
    let mut j = json!({
        "property": k.id(),
        "seed": seed,
        "index": index,
        "clause": fail.clause,
        "detail": fail.detail,
        "case": k.to_j(case),
    });
    if let Some(o) = original {
        j["original_case"] = k.to_j(o);
    }
    std::fs::write(&path, serde_json::to_string_pretty(&j).unwrap()).map_err(|e| e.to_string())?;
    Ok(path)
}

/// What one worker (thread or child process) brings back.
#[derive(Default)]
pub struct WorkerOut {
    pub stats: Stats,
    pub fps: Vec<u64>,
    pub evals: u64,
    pub samples: Vec<(u64, J)>,
    /// (run index, clause, detail) of violations not listed as known findings
    pub failures: Vec<(u64, String, String)>,
    /// class → (occurrences, first run)
    pub known: BTreeMap<String, (u64, u64)>,
    pub harness_err: Option<String>,
}

impl WorkerOut {
    fn to_j(&self) -> J {
        json!({
            "stats": self.stats.c.iter().map(|(k, v)| (k.to_string(), json!(v))).collect::<serde_json::Map<String, J>>(),
            "fps": self.fps,
            "classes": self.stats.classes,
            "evals": self.evals,
            "samples": self.samples.iter().map(|(i, j)| json!([i, j])).collect::<Vec<_>>(),
            "failures": self.failures.iter().map(|(i, c, d)| json!([i, c, d])).collect::<Vec<_>>(),
            "known": self.known.iter().map(|(k, v)| (k.clone(), json!([v.0, v.1]))).collect::<serde_json::Map<String, J>>(),
            "harness_err": self.harness_err,
        })
    }
    fn from_j(j: &J, names: &[&'static str]) -> WorkerOut {
        let mut o = WorkerOut::default();
        if let Some(m) = j.get("stats").and_then(|v| v.as_object()) {
            for (k, v) in m {
                // counter names are 'static in-process; across the process boundary they are re-interned
                let name: &'static str = names.iter().copied().find(|n| n == k).unwrap_or_else(|| Box::leak(k.clone().into_boxed_str()));
                o.stats.c.insert(name, v.as_u64().unwrap_or(0));
            }
        }
        o.fps = j.get("fps").and_then(|v| v.as_array()).map(|a| a.iter().filter_map(|x| x.as_u64()).collect()).unwrap_or_default();
        o.stats.classes = j.get("classes").and_then(|v| v.as_array()).map(|a| a.iter().filter_map(|x| x.as_u64()).collect()).unwrap_or_default();
        o.evals = j.get("evals").and_then(|v| v.as_u64()).unwrap_or(0);
        o.samples = j.get("samples").and_then(|v| v.as_array()).map(|a| a.iter().filter_map(|x| Some((x.get(0)?.as_u64()?, x.get(1)?.clone()))).collect()).unwrap_or_default();
        o.failures = j.get("failures").and_then(|v| v.as_array()).map(|a| a.iter().filter_map(|x| Some((x.get(0)?.as_u64()?, x.get(1)?.as_str()?.to_string(), x.get(2)?.as_str()?.to_string()))).collect()).unwrap_or_default();
        if let Some(m) = j.get("known").and_then(|v| v.as_object()) {
            for (k, v) in m {
                o.known.insert(k.clone(), (v.get(0).and_then(|x| x.as_u64()).unwrap_or(0), v.get(1).and_then(|x| x.as_u64()).unwrap_or(0)));
            }
        }
        o.harness_err = j.get("harness_err").and_then(|v| v.as_str()).map(|s| s.to_string());
        o
    }
}

/// The loop of one worker over the run indices w, w+n, w+2n, …
/// `announce`: print "R <index>" before each run (child-process mode, so that the parent can
/// attribute an abort). `stop_after`: shared lowest failing index (threads) or None.
fn worker_loop<K: Check>(k: &K, tier: Tier, seed: u64, w: u64, n: u64, total: u64, known: &[Known], stop_after: Option<&AtomicU64>, cur: Option<&Mutex<Option<(u64, Instant)>>>, announce: bool) -> WorkerOut {
    let mut out = WorkerOut::default();
    let mut i = w;
    while i < total {
        if let Some(sa) = stop_after {
            if i > sa.load(Ordering::Relaxed) {
                break;
            }
        }
        if announce {
            // child-process mode: the abort handler and the child's watchdog report this index
            CURRENT_RUN.store(i, Ordering::SeqCst);
            CURRENT_RUN_STARTED_MS.store(process_ms(), Ordering::SeqCst);
        }
        let (s, ss) = run_seed(seed, k.num(), i);
        if let Some(c) = cur {
            *c.lock().unwrap() = Some((i, Instant::now()));
        }
        let case = match catch_unwind(AssertUnwindSafe(|| k.gen(s, ss, tier))) {
            Ok(c) => c,
            Err(_) => {
                out.harness_err = Some(format!("run {}: panic inside the case generator", i));
                break;
            }
        };
        let r = exec_guarded(k, &case, &mut out.stats);
        if let Some(c) = cur {
            *c.lock().unwrap() = None;
        }
        out.evals += 1;
        if out.stats.classes.len() > 1 << 20 {
            out.stats.classes.sort_unstable();
            out.stats.classes.dedup();
        }
        match r {
            Err(m) => {
                out.harness_err = Some(format!("run {}: panic inside the oracle/harness: {}", i, m));
                break;
            }
            Ok(Ok(ok)) => {
                if ok.nontrivial {
                    out.fps.push(k.fingerprint(&case));
                    if out.samples.len() < 2 {
                        let j = k.to_j(&case);
                        if j.to_string().len() < 3000 {
                            out.samples.push((i, j));
                        }
                    }
                }
            }
            Ok(Err(f)) => {
                // listed known finding? then it is counted, not reported
                let class = k.classify(&case, &f);
                let listed = class.as_ref().and_then(|c| known.iter().find(|e| e.property == k.id() && e.status == "known" && &e.class == c));
                if let (Some(c), Some(_)) = (&class, listed) {
                    let e = out.known.entry(c.clone()).or_insert((0, i));
                    e.0 += 1;
                    e.1 = e.1.min(i);
                } else {
                    if let Some(sa) = stop_after {
                        sa.fetch_min(i, Ordering::Relaxed);
                    }
                    out.failures.push((i, f.clause, f.detail));
                    if stop_after.is_none() {
                        break;
                    }
                }
            }
        }
        i += n;
    }
    out
}


// ---------------------------------------------------------------------------------------------
// Child-process mode: which run was executing when the process died or hung
// ---------------------------------------------------------------------------------------------

static CURRENT_RUN: AtomicU64 = AtomicU64::new(u64::MAX);
static CURRENT_RUN_STARTED_MS: AtomicU64 = AtomicU64::new(0);

fn process_ms() -> u64 {
    static START: std::sync::OnceLock<Instant> = std::sync::OnceLock::new();
    START.get_or_init(Instant::now).elapsed().as_millis() as u64
}

extern "C" {
    fn signal(signum: i32, handler: extern "C" fn(i32)) -> usize;
    fn write(fd: i32, buf: *const u8, count: usize) -> isize;
    fn _exit(code: i32) -> !;
}

/// SIGABRT handler (failed or refused allocation, stack overflow reported by the runtime, abort in
/// general): writes "R <run index>" to stdout with async-signal-safe calls only and exits.
extern "C" fn on_abort(_sig: i32) {
    let mut buf = [0u8; 40];
    let mut n = CURRENT_RUN.load(Ordering::SeqCst);
    let mut digits = [0u8; 24];
    let mut k = 0;
    if n == 0 {
        digits[0] = b'0';
        k = 1;
    }
    while n > 0 {
        digits[k] = b'0' + (n % 10) as u8;
        n /= 10;
        k += 1;
    }
    let mut len = 0;
    for b in b"\nR " {
        buf[len] = *b;
        len += 1;
    }
    while k > 0 {
        k -= 1;
        buf[len] = digits[k];
        len += 1;
    }
    buf[len] = b'\n';
    len += 1;
    unsafe {
        write(1, buf.as_ptr(), len);
        _exit(134);
    }
}

fn install_child_guards() {
    const SIGABRT: i32 = 6;
    unsafe {
        signal(SIGABRT, on_abort);
    }
    // watchdog of this child: a run that exceeds the limit is reported as "H <index>" and the process exits
    std::thread::spawn(|| loop {
        std::thread::sleep(Duration::from_millis(500));
        let i = CURRENT_RUN.load(Ordering::SeqCst);
        if i != u64::MAX && process_ms().saturating_sub(CURRENT_RUN_STARTED_MS.load(Ordering::SeqCst)) > WATCHDOG_SECS * 1000 && CURRENT_RUN.load(Ordering::SeqCst) == i {
            println!("\nH {}", i);
            std::process::exit(3);
        }
    });
}

/// Entry point of a child process in isolated mode: runs its share and prints the result.
pub fn child_worker<K: Check>(k: &K, tier: Tier, w: u64, n: u64, total: u64) -> i32 {
    let known = load_known().unwrap_or_default();
    install_child_guards();
    let mut out = worker_loop(k, tier, base_seed(), w, n, total, &known, None, None, true);
    CURRENT_RUN.store(u64::MAX, Ordering::SeqCst);
    // fingerprints travel as plain hex lines (millions of them would be slow as JSON)
    for (tag, v) in [("FPS", std::mem::take(&mut out.fps)), ("CLS", std::mem::take(&mut out.stats.classes))] {
        for chunk in v.chunks(4096) {
            let mut line = String::with_capacity(chunk.len() * 17 + 4);
            line.push_str(tag);
            for x in chunk {
                line.push(' ');
                line.push_str(&format!("{:x}", x));
            }
            println!("{}", line);
        }
    }
    println!("OUT {}", out.to_j());
    0
}

/// Child process: minimise run `index` and write its replay file; prints the VIOLATION line.
pub fn child_minimise<K: Check>(k: &K, tier: Tier, index: u64) -> i32 {
    let seed = base_seed();
    let (s, ss) = run_seed(seed, k.num(), index);
    let case = k.gen(s, ss, tier);
    let mut st = Stats::default();
    match exec_guarded(k, &case, &mut st) {
        Ok(Err(f)) => {
            let orig = case.clone();
            let (mc, mf, used) = minimise(k, case, f, 3000);
            println!("{}: minimised with {} re-executions; clause '{}': {}", k.id(), used, mf.clause, mf.detail);
            match write_replay(k, seed, index, &mc, &mf, Some(&orig)) {
                Ok(p) => {
                    println!("VIOLATION property={} replay={}", k.id(), p.display());
                    1
                }
                Err(e) => {
                    eprintln!("harness error: {}", e);
                    2
                }
            }
        }
        _ => {
            eprintln!("harness error: run {} did not fail when re-executed for minimisation", index);
            2
        }
    }
}

fn spawn_children<K: Check>(k: &K, tier: Tier, total: u64, n: u64, seed: u64, names: &[&'static str]) -> (Vec<WorkerOut>, Vec<u64>, Vec<u64>) {
    use std::io::{BufRead, BufReader};
    use std::process::{Command, Stdio};
    let exe = std::env::current_exe().expect("current_exe");
    let mut outs: Vec<WorkerOut> = Vec::new();
    let mut aborted: Vec<u64> = Vec::new();
    let mut children = Vec::new();
    for w in 0..n {
        let child = Command::new(&exe)
            .args(["--worker", k.id(), tier.name(), &w.to_string(), &n.to_string(), &total.to_string()])
            .env("VERIF_SEED", seed.to_string())
            .env("VERIF_ROOT", root_dir())
            .stdout(Stdio::piped())
            .stderr(Stdio::null())
            .spawn()
            .expect("spawn worker");
        children.push(child);
    }
    let handles: Vec<_> = children
        .into_iter()
        .map(|mut ch| {
            std::thread::spawn(move || {
                let rd = BufReader::new(ch.stdout.take().unwrap());
                let mut last: Option<u64> = None;
                let mut hung: Option<u64> = None;
                let mut out: Option<String> = None;
                let mut fps: Vec<u64> = Vec::new();
                let mut cls: Vec<u64> = Vec::new();
                for line in rd.lines().map_while(|l| l.ok()) {
                    if let Some(r) = line.strip_prefix("R ") {
                        last = r.trim().parse().ok();
                    } else if let Some(r) = line.strip_prefix("H ") {
                        hung = r.trim().parse().ok();
                    } else if let Some(r) = line.strip_prefix("FPS ") {
                        fps.extend(r.split(' ').filter_map(|x| u64::from_str_radix(x, 16).ok()));
                    } else if let Some(r) = line.strip_prefix("CLS ") {
                        cls.extend(r.split(' ').filter_map(|x| u64::from_str_radix(x, 16).ok()));
                    } else if let Some(o) = line.strip_prefix("OUT ") {
                        out = Some(o.to_string());
                    }
                }
                let status = ch.wait().ok();
                (last, hung, fps, cls, out, status.map(|s| s.success()).unwrap_or(false))
            })
        })
        .collect();
    let mut hung: Vec<u64> = Vec::new();
    for h in handles {
        let (last, hang, fps, cls, out, ok) = h.join().expect("reader thread");
        match (out, ok) {
            (Some(o), true) => match serde_json::from_str::<J>(&o) {
                Ok(j) => {
                    let mut w = WorkerOut::from_j(&j, names);
                    w.fps = fps;
                    w.stats.classes = cls;
                    outs.push(w);
                }
                Err(e) => outs.push(WorkerOut { harness_err: Some(format!("worker output: {}", e)), ..Default::default() }),
            },
            _ => {
                // the child died (abort on a refused or failed allocation, stack overflow, kill) or hung
                match (hang, last) {
                    (Some(i), _) => hung.push(i),
                    (None, Some(i)) => aborted.push(i),
                    (None, None) => outs.push(WorkerOut { harness_err: Some("a worker process died without reporting which run it was executing (killed from outside, or a crash that is not an abort)".into()), ..Default::default() }),
                }
            }
        }
    }
    (outs, aborted, hung)
}

pub fn run_check<K: Check>(k: &K, tier: Tier, runs_override: Option<u64>) -> i32 {
    run_check_mode(k, tier, runs_override, false)
}

/// `isolated`: workers are child processes (needed when a run may abort the process, C17).
pub fn run_check_mode<K: Check>(k: &K, tier: Tier, runs_override: Option<u64>, isolated: bool) -> i32 {
    let t0 = Instant::now();
    let seed = base_seed();
    let nthreads = threads();
    let total = runs_override.unwrap_or_else(|| k.runs(tier));
    println!("{}: seed={} tier={} runs={} {}={}", k.id(), seed, tier.name(), total, if isolated { "worker_processes" } else { "threads" }, nthreads);
    let known = match load_known() {
        Ok(v) => v,
        Err(e) => {
            eprintln!("harness error: {}", e);
            return 2;
        }
    };

    let mut outs: Vec<WorkerOut> = Vec::new();
    let mut aborted: Vec<u64> = Vec::new();
    let mut hung: Vec<u64> = Vec::new();
    if isolated {
        let names: Vec<&'static str> = k.expected_probes();
        let (o, a, h) = spawn_children(k, tier, total, nthreads as u64, seed, &names);
        outs = o;
        aborted = a;
        hung = h;
    } else {
        let first_fail = AtomicU64::new(u64::MAX);
        let current: Vec<Arc<Mutex<Option<(u64, Instant)>>>> = (0..nthreads).map(|_| Arc::new(Mutex::new(None))).collect();
        let done = AtomicU64::new(0);
        let collected: Mutex<Vec<WorkerOut>> = Mutex::new(Vec::new());
        std::thread::scope(|scope| {
            for w in 0..nthreads {
                let cur = current[w].clone();
                let (first_fail, done, collected, known) = (&first_fail, &done, &collected, &known);
                scope.spawn(move || {
                    let out = worker_loop(k, tier, seed, w as u64, nthreads as u64, total, known, Some(first_fail), Some(&cur), false);
                    if out.harness_err.is_some() {
                        first_fail.store(0, Ordering::Relaxed);
                    }
                    collected.lock().unwrap().push(out);
                    done.fetch_add(1, Ordering::SeqCst);
                });
            }
            // watchdog
            let (done, current, first_fail) = (&done, &current, &first_fail);
            scope.spawn(move || loop {
                if done.load(Ordering::SeqCst) as usize == nthreads {
                    break;
                }
                std::thread::sleep(Duration::from_millis(200));
                for c in current.iter() {
                    let g = c.lock().unwrap();
                    if let Some((i, t)) = *g {
                        if t.elapsed() > Duration::from_secs(WATCHDOG_SECS) {
                            drop(g);
                            let (s, ss) = run_seed(seed, k.num(), i);
                            let case = k.gen(s, ss, tier);
                            let f = Fail::new("hang", format!("run did not finish within {} s", WATCHDOG_SECS));
                            first_fail.fetch_min(i, Ordering::Relaxed);
                            match write_replay(k, seed, i, &case, &f, None) {
                                Ok(p) => {
                                    println!("{}: run {} hangs", k.id(), i);
                                    println!("VIOLATION property={} replay={}", k.id(), p.display());
                                    std::process::exit(1);
                                }
                                Err(e) => {
                                    eprintln!("harness error: {}", e);
                                    std::process::exit(2);
                                }
                            }
                        }
                    }
                }
            });
        });
        outs = std::mem::take(&mut *collected.lock().unwrap());
    }

    if let Some(e) = outs.iter().find_map(|o| o.harness_err.clone()) {
        eprintln!("harness error: {}", e);
        return 2;
    }

    let mut stats = Stats::default();
    let mut fps: Vec<u64> = Vec::new();
    let mut evals = 0u64;
    let mut samples: Vec<(u64, J)> = Vec::new();
    let mut failures: Vec<(u64, String, String)> = Vec::new();
    let mut kc: BTreeMap<String, (u64, u64)> = BTreeMap::new();
    for o in outs {
        stats.merge(&o.stats);
        fps.extend(o.fps);
        evals += o.evals;
        samples.extend(o.samples);
        failures.extend(o.failures);
        for (c, (n, first)) in o.known {
            let e = kc.entry(c).or_insert((0, first));
            e.0 += n;
            e.1 = e.1.min(first);
        }
    }
    fps.sort_unstable();
    fps.dedup();
    stats.classes.sort_unstable();
    stats.classes.dedup();
    samples.sort_by_key(|s| s.0);
    samples.truncate(3);
    failures.sort_by_key(|f| f.0);
    aborted.sort_unstable();

    for (class, (n, first)) in &kc {
        let what = known.iter().find(|e| e.property == k.id() && &e.class == class).map(|e| e.what.clone()).unwrap_or_default();
        println!("KNOWN-FINDING: property={} class={} occurrences={} first_run={} {}", k.id(), class, n, first, what);
    }

    let mut exit = 0;
    let mut violations = 0;
    hung.sort_unstable();
    let is_hang = !hung.is_empty() && hung[0] <= aborted.first().copied().unwrap_or(u64::MAX);
    if is_hang {
        aborted.insert(0, hung[0]);
    }
    let first_abort = aborted.first().copied();
    let first_failure = failures.first().map(|f| f.0);
    if first_abort.is_some() && first_abort.unwrap_or(u64::MAX) <= first_failure.unwrap_or(u64::MAX) {
        // a worker process died during this run: reported unminimised
        let i = first_abort.unwrap();
        violations = 1;
        exit = 1;
        let (s, ss) = run_seed(seed, k.num(), i);
        let case = k.gen(s, ss, tier);
        let f = if is_hang { Fail::new("hang", format!("run did not finish within {} s", WATCHDOG_SECS)) } else { Fail::new("abort", "the process running this case died (allocation refused by the 1 GiB cap or failed, stack overflow, or another abort)".into()) };
        println!("{}: run {} {}", k.id(), i, if is_hang { "hangs" } else { "kills its worker process" });
        match write_replay(k, seed, i, &case, &f, None) {
            Ok(p) => println!("VIOLATION property={} replay={}", k.id(), p.display()),
            Err(e) => {
                eprintln!("harness error: cannot write replay file: {}", e);
                return 2;
            }
        }
    } else if let Some((index, clause, detail)) = failures.into_iter().next() {
        violations = 1;
        exit = 1;
        println!("{}: run {} violates clause '{}': {}", k.id(), index, clause, detail);
        if isolated {
            // minimise in a child: a shrunk case may abort
            let exe = std::env::current_exe().expect("current_exe");
            let st = std::process::Command::new(&exe).args(["--minimise", k.id(), tier.name(), &index.to_string()]).env("VERIF_SEED", seed.to_string()).env("VERIF_ROOT", root_dir()).status();
            if !matches!(st.map(|s| s.code()), Ok(Some(1))) {
                let (s, ss) = run_seed(seed, k.num(), index);
                let case = k.gen(s, ss, tier);
                match write_replay(k, seed, index, &case, &Fail { clause, detail }, None) {
                    Ok(p) => println!("VIOLATION property={} replay={}", k.id(), p.display()),
                    Err(e) => {
                        eprintln!("harness error: cannot write replay file: {}", e);
                        return 2;
                    }
                }
            }
        } else {
            let (s, ss) = run_seed(seed, k.num(), index);
            let case = k.gen(s, ss, tier);
            let orig = case.clone();
            let (mc, mf, used) = minimise(k, case, Fail { clause, detail }, 3000);
            println!("{}: minimised with {} re-executions; clause '{}': {}", k.id(), used, mf.clause, mf.detail);
            match write_replay(k, seed, index, &mc, &mf, Some(&orig)) {
                Ok(p) => println!("VIOLATION property={} replay={}", k.id(), p.display()),
                Err(e) => {
                    eprintln!("harness error: cannot write replay file: {}", e);
                    return 2;
                }
            }
        }
    }

    let wall = t0.elapsed().as_secs_f64();
    let mut warnings = Vec::new();
    if exit == 0 {
        for p in k.expected_probes() {
            if stats.c.get(p).copied().unwrap_or(0) == 0 {
                warnings.push(format!("probe '{}' stayed at zero", p));
            }
        }
    }
    for w in &warnings {
        println!("{}: WARNING {}", k.id(), w);
    }
    let counters: serde_json::Map<String, J> = stats.c.iter().map(|(k, v)| (k.to_string(), json!(v))).collect();
    let ev = json!({
        "property_id": k.id(),
        "tier": tier.name(),
        "seed": seed,
        "level": k.level(),
        "coverage": {
            "evaluations": evals,
            "distinct_nontrivial": fps.len(),
            "rule": k.rule(),
            "samples": samples.iter().map(|(i, j)| json!({"run": i, "case": j})).collect::<Vec<_>>(),
            "runs_per_hour": if wall > 0.0 { (evals as f64 / wall * 3600.0) as u64 } else { 0 },
            "simulated_time": "not applicable: the library has no clock or timer; the logical clock is the sequence of API calls and I/O completions, counted in 'counters'",
            "counters": counters,
            "distinct_schedule_classes": stats.classes.len(),
            "probe_warnings": warnings,
            "known_finding_occurrences": kc.iter().map(|(c, (n, _))| (c.clone(), json!(n))).collect::<serde_json::Map<String, J>>(),
            "components": {
                "real": ["TagIterator", "TagWriter", "nonblocking::TagIteratorAsync + into_stream", "tools", "spec_util", "easy_ebml!-generated StaticSpec and StaticSpec2 (part of the runs)"],
                "stub": ["std::io::Read source (SimReader)", "std::io::Write sink (SimWriter)", "futures::AsyncRead source + single-threaded executor", "runtime specification table behind DTag", "API-call driver", "counting global allocator (C17)"]
            },
            "workers": nthreads,
            "worker_kind": if isolated { "child processes" } else { "threads" },
        },
        "assumptions": k.assumptions(),
        "wall_s": wall,
        "violations": violations,
    });
    let dir = root_dir().join("evidence");
    if let Err(e) = std::fs::create_dir_all(&dir).and_then(|_| std::fs::write(dir.join(format!("{}.json", k.id())), serde_json::to_string_pretty(&ev).unwrap())) {
        eprintln!("harness error: cannot write evidence: {}", e);
        return 2;
    }
    println!("{}: {} runs, {} distinct non-trivial, {:.1}s, {}", k.id(), evals, fps.len(), wall, if exit == 0 { "property held on everything explored" } else { "VIOLATED" });
    exit
}

/// Re-executes the explicit case of a replay file. Exit 1 + VIOLATION line when it fails in the
/// recorded clause, 2 when it does not reproduce.
pub fn replay_check<K: Check>(k: &K, j: &J, path: &str) -> i32 {
    let case = match j.get("case").ok_or("no case".to_string()).and_then(|c| k.from_j(c)) {
        Ok(c) => c,
        Err(e) => {
            eprintln!("harness error: cannot load case: {}", e);
            return 2;
        }
    };
    let want = j.get("clause").and_then(|c| c.as_str()).unwrap_or("").to_string();
    if want == "hang" {
        // run under a watchdog of our own
        let (tx, rx) = std::sync::mpsc::channel();
        std::thread::scope(|s| {
            s.spawn(|| {
                let mut st = Stats::default();
                let r = exec_guarded(k, &case, &mut st);
                let _ = tx.send(r.is_ok());
            });
            match rx.recv_timeout(Duration::from_secs(WATCHDOG_SECS)) {
                Ok(_) => {
                    eprintln!("replay: the recorded hang did not reproduce (run finished)");
                    std::process::exit(2);
                }
                Err(_) => {
                    println!("replay: still hangs after {} s", WATCHDOG_SECS);
                    println!("VIOLATION property={} replay={}", k.id(), path);
                    std::process::exit(1);
                }
            }
        });
        unreachable!();
    }
    let mut st = Stats::default();
    match exec_guarded(k, &case, &mut st) {
        Err(m) => {
            eprintln!("harness error: panic inside the oracle/harness: {}", m);
            2
        }
        Ok(Ok(_)) => {
            eprintln!("replay: case passes — recorded clause '{}' did not reproduce", want);
            2
        }
        Ok(Err(f)) => {
            println!("replay: clause '{}': {}", f.clause, f.detail);
            if f.clause == want {
                println!("VIOLATION property={} replay={}", k.id(), path);
                1
            } else {
                eprintln!("replay: failed in clause '{}' instead of recorded '{}'", f.clause, want);
                println!("VIOLATION property={} replay={}", k.id(), path);
                1
            }
        }
    }
}

/// Replay for checks whose runs may abort the process: the case is re-executed in a child.
pub fn replay_isolated(id: &str, path: &str) -> i32 {
    let exe = std::env::current_exe().expect("current_exe");
    match std::process::Command::new(&exe).args(["--replay-worker", path]).env("VERIF_ROOT", root_dir()).status() {
        Ok(s) => match s.code() {
            Some(c) => c,
            None => {
                println!("replay: the process running the case died (abort reproduced)");
                println!("VIOLATION property={} replay={}", id, path);
                1
            }
        },
        Err(e) => {
            eprintln!("harness error: {}", e);
            2
        }
    }
}

/// Debug aid: prints the generated case of run `index` (explicit form, as in replay files).
pub fn dump_case<K: Check>(k: &K, tier: Tier, index: u64) -> i32 {
    let (s, ss) = run_seed(base_seed(), k.num(), index);
    let case = k.gen(s, ss, tier);
    println!("{}", serde_json::to_string_pretty(&k.to_j(&case)).unwrap());
    0
}

/// Determinism aid: one line "index digest" per run, where the digest covers the generated case,
/// the verdict (with clause and detail) and every counter the run produced (API calls, read and
/// write completions, fault deliveries, probes). Two processes must print identical lines.
pub fn digest_runs<K: Check>(k: &K, tier: Tier, from: u64, to: u64) -> i32 {
    let seed = base_seed();
    for i in from..to {
        let (s, ss) = run_seed(seed, k.num(), i);
        let case = k.gen(s, ss, tier);
        let mut st = Stats::default();
        let r = exec_guarded(k, &case, &mut st);
        let mut f = Fp::default();
        f.u(k.fingerprint(&case));
        match r {
            Ok(Ok(ok)) => {
                f.u(1).u(ok.nontrivial as u64);
            }
            Ok(Err(x)) => {
                f.u(2).s(&x.clause).s(&x.detail);
            }
            Err(m) => {
                f.u(3).s(&m);
            }
        }
        for (name, v) in &st.c {
            f.s(name).u(*v);
        }
        for c in &st.classes {
            f.u(*c);
        }
        println!("{} {:016x}", i, f.0);
    }
    0
}
